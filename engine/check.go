package main

// `gosym check <property> [--tier quick|thorough]`: explores the property's
// harnesses on /repo's current working tree, confirms every counterexample
// natively, applies the known-findings list, writes evidence and replay files.

import (
	"regexp"
	"encoding/json"
	"flag"
	"fmt"
	"math/rand"
	"os"
	"os/exec"
	"path/filepath"
	"sort"
	"strconv"
	"strings"
	"time"
)

var objNum = regexp.MustCompile(`#[0-9]+`)

type HarnessSpec struct {
	Name       string
	Pkg        string   // "gldap" (default) or "testdirectory"
	Tiers      string   // "quick", "thorough", "" = both
	Reach      []string // labels that must be reached on at least one path
	Native     bool     // harness can be replayed natively (no Run/TLS stubs)
	Tweak      func(c *HarnessCfg, tier string)
	DeadOK     map[string]bool // vLen alternatives ("name=value") that by design never complete
	PanicOK    bool // panics escaping the harness are not violations (harness handles them)
	Bound      string
	// PO runs partial-order queries on a completed path's trace and returns findings (key, detail, witness order)
	PO func(p *PathResult, po *PO) []POFinding
}

type POFinding struct {
	Key    string
	Detail string
	Order  []string
}

type PropertySpec struct {
	ID        string
	Harnesses []HarnessSpec
	Functions string // real functions encoded (headline)
	Outside   []string
	PO        func(P *Program, tier string, rep *Report) // Layer PO part, if any
}

type Finding struct {
	Property string `json:"property"`
	Key      string `json:"key"`
	What     string `json:"what"`
	Status   string `json:"status"`
}

type KnownFindings struct {
	Findings []Finding `json:"findings"`
	Fixed    []string  `json:"fixed"`
}

type ViolationReport struct {
	Key       string
	Harness   string
	Detail    string
	Model     map[string]interface{}
	Confirmed string // "native", "symbolic-trace", "unconfirmed"
	Events    []Event
	Decisions []int
	Native    *nativeResult
	alt       bool // an alternative model for a key already listed
}

type Report struct {
	Property     string
	Tier         string
	Seed         int64
	Paths        int
	Distinct     int
	Obligations  int
	Discharged   int
	Inconclusive int
	Unsupported  map[string]int
	Blocked      map[string]int
	Cuts         map[string]int
	Funcs        map[string]int
	Stubs        map[string]int
	Reach        map[string]int
	Violations   []*ViolationReport
	Known        []string
	Lines        []string
	Samples      []interface{}
	NativeRuns   int
	NativeAgree  int
	NativeDiffs  []string
	HarnessStats []map[string]interface{}
	Bounds       []string
	EngineErrors []string
	POStats      map[string]interface{}
	broken       bool
}

type nativeResult struct {
	Harness    string `json:"harness"`
	Asserts    []struct {
		Label string `json:"label"`
		OK    bool   `json:"ok"`
	} `json:"asserts"`
	Events     []string `json:"events"`
	Reached    []string `json:"reached"`
	Panic      string   `json:"panic"`
	PanicStack string   `json:"panic_stack"`
	WireReject string   `json:"wire_reject"`
	AssumeFail bool     `json:"assume_fail"`
	Skipped    bool     `json:"skipped"`
	died       bool
}

type nativeCase struct {
	Harness string                 `json:"harness"`
	Values  map[string]interface{} `json:"values"`
}

func cmdCheck(args []string) int {
	fs := flag.NewFlagSet("check", flag.ExitOnError)
	repo := fs.String("repo", envOr("VERIF_REPO", "/repo"), "repository")
	verif := fs.String("verif", envOr("VERIF_DIR", "/verif"), "verif dir")
	tier := fs.String("tier", envOr("VERIF_TIER", "quick"), "quick|thorough")
	replay := fs.String("replay", "", "replay a violation file natively")
	workers := fs.Int("j", 14, "workers")
	noNative := fs.Bool("no-native", false, "skip native cross-check (development)")
	fs.Parse(args)
	if fs.NArg() < 1 {
		fmt.Fprintln(os.Stderr, "usage: gosym check <property-id> [--tier quick|thorough]")
		return 2
	}
	id := fs.Arg(0)
	seed := int64(1)
	if s := os.Getenv("VERIF_SEED"); s != "" {
		if v, err := strconv.ParseInt(s, 10, 64); err == nil {
			seed = v
		}
	}
	spec, ok := properties()[id]
	if !ok {
		fmt.Fprintln(os.Stderr, "unknown property", id)
		return 2
	}
	if *replay != "" {
		return replayFile(*repo, *verif, *replay)
	}
	t0 := time.Now()
	P, err := LoadProgram(*repo, *verif)
	if err != nil {
		fmt.Fprintln(os.Stderr, "load:", err)
		fmt.Println("BROKEN: cannot load /repo with the harness overlay:", err)
		return 2
	}
	rep := &Report{Property: id, Tier: *tier, Seed: seed, Unsupported: map[string]int{}, Blocked: map[string]int{}, Cuts: map[string]int{},
		Funcs: map[string]int{}, Stubs: map[string]int{}, Reach: map[string]int{}}
	kf := loadKnown(*verif)
	rng := rand.New(rand.NewSource(seed))

	var poSolver *Solver
	defer func() {
		if poSolver != nil {
			poSolver.Close()
		}
	}()
	var crossCases []nativeCase
	var crossExpect []*PathResult
	var violCases []nativeCase
	var violRefs []*ViolationReport

	for _, h := range spec.Harnesses {
		if h.Tiers != "" && h.Tiers != *tier {
			continue
		}
		cfg := defaultCfg(h.Name)
		if h.Pkg != "" {
			cfg.Pkg = h.Pkg
		}
		cfg.Workers = *workers
		cfg.WantModels = h.Native && !*noNative
		cfg.PanicIsViolation = !h.PanicOK
		cfg.Seed = seed
		if *tier == "thorough" {
			cfg.SampleMaxLen = 70000
			cfg.CrossSolver = true
		}
		if h.Tweak != nil {
			h.Tweak(cfg, *tier)
		}
		res, err := Explore(P, cfg)
		if err != nil {
			fmt.Println("BROKEN:", err)
			return 2
		}
		if h.Bound != "" {
			rep.Bounds = append(rep.Bounds, h.Name+": "+h.Bound)
		}
		hs := map[string]interface{}{"harness": h.Name, "paths": len(res.Paths), "wall_s": res.WallS, "truncated": res.Truncated}
		outcomes := map[string]int{}
		seenViol := map[string]bool{}
		altCount := map[string]int{}
		reach := map[string]int{}
		var okPaths []*PathResult
		for _, p := range res.Paths {
			outcomes[p.Outcome]++
			rep.Paths++
			switch p.Outcome {
			case "unsupported":
				rep.Unsupported[h.Name+": "+p.Detail]++
			case "blocked":
				rep.Blocked[h.Name+": "+p.Detail]++
				// the harness body itself can never continue (every call it makes is one the
				// property says returns): a deadlock of the code under test
				p.Violations = append(p.Violations, Violation{Key: "assert:E:deadlock: the harness blocks forever in " + objNum.ReplaceAllString(firstLine(p.Detail), ""), Detail: "no thread can run and the harness body is blocked: " + p.Detail})
			case "budget", "cut":
				rep.Cuts[h.Name+": "+p.Detail]++
			case "engine-error":
				rep.EngineErrors = append(rep.EngineErrors, h.Name+": "+firstLine(p.Detail))
			}
			if p.Symbolic && len(p.Oblig) > 0 && (p.Outcome == "return" || p.Outcome == "done" || p.Outcome == "panic") {
				rep.Distinct++
			} else if p.Symbolic && h.PanicOK == false && len(spec.Harnesses) > 0 && p.Outcome == "return" && len(p.Oblig) == 0 && cfg.PanicIsViolation {
				// panic-freedom harness: every completed symbolic path is an obligation (no panic reachable on it)
				rep.Distinct++
			}
			if cfg.PanicIsViolation && (p.Outcome == "return" || p.Outcome == "done" || p.Outcome == "panic") {
				// panic-freedom of this path: every panic condition on it was decided by the solver
				rep.Obligations++
				if p.Outcome != "panic" {
					rep.Discharged++
				}
			}
			for _, o := range p.Oblig {
				rep.Obligations++
				switch o.Verdict {
				case "unsat", "concrete-true":
					rep.Discharged++
				case "unknown":
					rep.Inconclusive++
				}
			}
			rep.Inconclusive += p.Unknown
			for k, v := range p.Funcs {
				rep.Funcs[k] += v
			}
			for k, v := range p.Stubs {
				rep.Stubs[k] += v
			}
			for _, r := range p.Reached {
				reach[r]++
				rep.Reach[h.Name+":"+r]++
			}
			for _, v := range p.Violations {
				key := h.Name + ":" + v.Key
				if seenViol[key] {
					// further models for the same finding: alternatives for native confirmation
					if h.Native && v.HasModel && altCount[key] < 5 && !strings.HasPrefix(v.Key, "assert:E:") {
						altCount[key]++
						violCases = append(violCases, nativeCase{Harness: h.Name, Values: v.Model})
						violRefs = append(violRefs, &ViolationReport{Key: key, Harness: h.Name, Detail: v.Detail, Model: v.Model, Events: p.Events, Decisions: p.Decisions, alt: true})
					}
					continue
				}
				if !v.HasModel && h.Native && !strings.HasPrefix(v.Key, "assert:E:") {
					continue // try another path with the same key that has a confirmed model
				}
				seenViol[key] = true
				vr := &ViolationReport{Key: key, Harness: h.Name, Detail: v.Detail, Model: v.Model, Events: p.Events, Decisions: p.Decisions}
				rep.Violations = append(rep.Violations, vr)
				if h.Native && v.HasModel && !strings.HasPrefix(v.Key, "assert:E:") {
					violCases = append(violCases, nativeCase{Harness: h.Name, Values: v.Model})
					violRefs = append(violRefs, vr)
				} else {
					vr.Confirmed = "symbolic-trace"
				}
			}
			if _, inc := p.Model["__incomparable"]; len(p.Violations) == 0 && p.HasModel && !inc && (p.Outcome == "return" || p.Outcome == "done") {
				okPaths = append(okPaths, p)
			}
		}
		// violations whose every occurrence lacked a model
		for _, p := range res.Paths {
			for _, v := range p.Violations {
				key := h.Name + ":" + v.Key
				if !seenViol[key] {
					seenViol[key] = true
					rep.Violations = append(rep.Violations, &ViolationReport{Key: key, Harness: h.Name, Detail: v.Detail, Confirmed: "unconfirmed", Events: p.Events, Decisions: p.Decisions})
				}
			}
		}
		incomplete := outcomes["unsupported"]+outcomes["engine-error"]+outcomes["budget"]+outcomes["cut"] > 0
		if res.Truncated {
			incomplete = true
			rep.Lines = append(rep.Lines, fmt.Sprintf("INCONCLUSIVE: property=%s %s: exploration stopped at the path budget (%d paths); the stated bound was not exhausted", id, h.Name, len(res.Paths)))
		}
		// vacuity per alternative: every value of every vLen choice must lie on some path that
		// runs to the end of the harness (an assumption that silently removes one alternative
		// would otherwise pass everything about it)
		{
			alive := map[string]map[int]bool{}
			dom := map[string]int{}
			for _, p := range res.Paths {
				for name, vm := range p.Choices {
					if vm[1] > dom[name] {
						dom[name] = vm[1]
					}
					if alive[name] == nil {
						alive[name] = map[int]bool{}
					}
					if p.Outcome == "return" || p.Outcome == "done" {
						alive[name][vm[0]] = true
					}
				}
			}
			var names []string
			for n := range dom {
				names = append(names, n)
			}
			sort.Strings(names)
			deadInc := 0
			for _, n := range names {
				for v := 0; v <= dom[n]; v++ {
					if !alive[n][v] && !h.DeadOK[fmt.Sprintf("%s=%d", n, v)] {
						if incomplete {
							deadInc++
						} else {
							rep.Violations = append(rep.Violations, &ViolationReport{Key: fmt.Sprintf("%s:vacuity:choice %s=%d", h.Name, n, v), Harness: h.Name,
								Detail: fmt.Sprintf("alternative %s=%d never runs to the end of the harness: everything asserted about it holds vacuously", n, v), Confirmed: "symbolic-trace"})
						}
					}
				}
			}
			if deadInc > 0 {
				rep.Lines = append(rep.Lines, fmt.Sprintf("INCONCLUSIVE: property=%s %s: %d alternative(s) never run to the end of the harness, but some paths left the supported fragment", id, h.Name, deadInc))
			}
		}
		for _, r := range h.Reach {
			if reach[r] == 0 && incomplete {
				rep.Lines = append(rep.Lines, fmt.Sprintf("INCONCLUSIVE: property=%s %s: reachability witness '%s' not reached, but some paths left the supported fragment (no verdict)", id, h.Name, r))
				continue
			}
			if reach[r] == 0 {
				rep.Violations = append(rep.Violations, &ViolationReport{Key: h.Name + ":vacuity:" + r, Harness: h.Name,
					Detail: "reachability witness '" + r + "' is not reached on any path: the success outcome the property is about never happens", Confirmed: "symbolic-trace"})
			}
		}
		// translator validation sample
		if h.Native && !*noNative {
			n := 24
			if *tier == "thorough" {
				n = 200
			}
			rng.Shuffle(len(okPaths), func(i, j int) { okPaths[i], okPaths[j] = okPaths[j], okPaths[i] })
			if len(okPaths) > n {
				okPaths = okPaths[:n]
			}
			for _, p := range okPaths {
				crossCases = append(crossCases, nativeCase{Harness: h.Name, Values: p.Model})
				crossExpect = append(crossExpect, p)
			}
		}
		if h.PO != nil {
			if poSolver == nil {
				poSolver, _ = NewSolver(Z3Old, 20000)
			}
			poStats := map[string]int{}
			seenPO := map[string]bool{}
			var poPaths []*PathResult
			for _, p := range res.Paths {
				if p.Outcome == "return" || p.Outcome == "done" {
					poPaths = append(poPaths, p)
				}
			}
			maxPO := 150
			if *tier == "thorough" {
				maxPO = 5000
			}
			if len(poPaths) > maxPO {
				// evenly spaced sample of the explored traces (deterministic)
				step := float64(len(poPaths)) / float64(maxPO)
				var sel []*PathResult
				for i := 0; i < maxPO; i++ {
					sel = append(sel, poPaths[int(float64(i)*step)])
				}
				poStats["traces_skipped"] = len(poPaths) - maxPO
				poPaths = sel
			}
			for _, p := range poPaths {
				po := NewPO(p.Events, poSolver)
				finds := h.PO(p, po)
				po.Close()
				poStats["traces"]++
				poStats["events"] += len(p.Events)
				poStats["queries"] += po.stats.queries
				poStats["sat"] += po.stats.sat
				poStats["unsat"] += po.stats.unsat
				poStats["unknown"] += po.stats.unknown
				rep.Obligations += po.stats.queries
				rep.Discharged += po.stats.unsat
				rep.Inconclusive += po.stats.unknown
				for _, f := range finds {
					key := h.Name + ":po:" + f.Key
					if seenPO[key] {
						continue
					}
					seenPO[key] = true
					ev := []Event{}
					for _, o := range f.Order {
						ev = append(ev, Event{Kind: o})
					}
					rep.Violations = append(rep.Violations, &ViolationReport{Key: key, Harness: h.Name, Detail: f.Detail, Model: p.Model, Confirmed: "symbolic-trace", Events: ev, Decisions: p.Decisions})
				}
			}
			if rep.POStats == nil {
				rep.POStats = map[string]interface{}{}
			}
			rep.POStats[h.Name] = poStats
		}
		hs["outcomes"] = outcomes
		rep.HarnessStats = append(rep.HarnessStats, hs)
		// samples
		cnt := 0
		for _, p := range res.Paths {
			if p.HasModel && cnt < 2 {
				cnt++
				rep.Samples = append(rep.Samples, map[string]interface{}{"harness": h.Name, "decisions": fmt.Sprint(p.Decisions), "outcome": p.Outcome, "model": p.Model, "obligations": p.Oblig})
			}
		}
		if cnt == 0 && len(res.Paths) > 0 {
			p := res.Paths[len(res.Paths)/2]
			rep.Samples = append(rep.Samples, map[string]interface{}{"harness": h.Name, "decisions": fmt.Sprint(p.Decisions), "outcome": p.Outcome, "events": p.Events, "obligations": p.Oblig})
		}
	}

	if spec.PO != nil {
		spec.PO(P, *tier, rep)
	}

	// native confirmation of violations, then cross-check of passing paths
	if len(violCases) > 0 {
		results := runNative(*repo, *verif, violCases, true)
		primary := map[string]*ViolationReport{}
		for _, vr := range rep.Violations {
			primary[vr.Key] = vr
		}
		for i, vr := range violRefs {
			ok := false
			if i < len(results) && results[i] != nil {
				vr.Native = results[i]
				ok = nativeConfirms(vr, results[i])
			}
			if !vr.alt {
				if ok {
					vr.Confirmed = "native"
				} else if vr.Confirmed != "native" {
					vr.Confirmed = "unconfirmed"
				}
				continue
			}
			// an alternative model confirms the finding its key belongs to
			if ok {
				if pv := primary[vr.Key]; pv != nil && pv.Confirmed != "native" {
					pv.Confirmed = "native"
					pv.Model, pv.Native, pv.Events, pv.Decisions = vr.Model, vr.Native, vr.Events, vr.Decisions
				}
			}
		}
	}
	if len(crossCases) > 0 {
		results := runNative(*repo, *verif, crossCases, false)
		escalated := map[string]bool{}
		for i, p := range crossExpect {
			if i >= len(results) || results[i] == nil {
				continue
			}
			rep.NativeRuns++
			if d := nativeAgrees(p, results[i]); d == "" {
				rep.NativeAgree++
			} else {
				rep.NativeDiffs = append(rep.NativeDiffs, crossCases[i].Harness+" "+fmt.Sprint(p.Decisions)+": "+d)
				// the real code fails on a concrete input of a path the symbolic run considered
				// passing: if it fails the same way when run again, that is a confirmed violation
				if strings.HasPrefix(d, "native assertion failed: ") || strings.HasPrefix(d, "native panic: ") {
					key := crossCases[i].Harness + ":native:" + strings.TrimPrefix(strings.TrimPrefix(d, "native assertion failed: "), "native panic: ")
					if !escalated[key] {
						again := runNative(*repo, *verif, []nativeCase{crossCases[i]}, false)
						if len(again) == 1 && again[0] != nil && nativeAgrees(p, again[0]) == d {
							escalated[key] = true
							rep.Violations = append(rep.Violations, &ViolationReport{Key: key, Harness: crossCases[i].Harness, Model: crossCases[i].Values, Events: p.Events, Decisions: p.Decisions,
								Confirmed: "native", Detail: d + " (twice, on a concrete input of a path the symbolic run considered passing)"})
						}
					}
				}
				if os.Getenv("GOSYM_DEBUG") != "" {
					b, _ := json.MarshalIndent(map[string]interface{}{"diff": d, "values": crossCases[i].Values, "native": results[i], "events": p.Events, "reached": p.Reached}, "", " ")
					os.WriteFile(filepath.Join(*verif, "build", "tmp", fmt.Sprintf("mismatch_%d.json", i)), b, 0o644)
				}
			}
		}
	}

	// verdicts
	exit := 0
	os.MkdirAll(filepath.Join(*verif, "replays"), 0o755)
	nviol := 0
	for _, vr := range rep.Violations {
		if vr.Confirmed == "unconfirmed" {
			rep.Inconclusive++
			if os.Getenv("GOSYM_DEBUG") != "" {
				b, _ := json.MarshalIndent(map[string]interface{}{"key": vr.Key, "harness": vr.Harness, "values": vr.Model, "native": vr.Native, "events": vr.Events}, "", " ")
				os.WriteFile(filepath.Join(*verif, "build", "tmp", "unconfirmed_"+sanitize(vr.Key)+".json"), b, 0o644)
			}
			rep.Lines = append(rep.Lines, fmt.Sprintf("INCONCLUSIVE: property=%s %s (solver model did not reproduce natively; not reported as a violation): %s", id, vr.Key, firstLine(vr.Detail)))
			continue
		}
		if f := kf.lookup(id, vr.Key); f != nil && f.Status == "known" {
			rep.Known = append(rep.Known, vr.Key)
			rep.Lines = append(rep.Lines, fmt.Sprintf("KNOWN-FINDING: property=%s %s", id, f.What))
			continue
		}
		nviol++
		path := filepath.Join(*verif, "replays", fmt.Sprintf("%s_%s.json", id, sanitize(vr.Key)))
		b, _ := json.MarshalIndent(map[string]interface{}{"property": id, "key": vr.Key, "harness": vr.Harness, "detail": vr.Detail, "values": vr.Model,
			"confirmed": vr.Confirmed, "events": vr.Events, "decisions": vr.Decisions, "native": vr.Native}, "", " ")
		os.WriteFile(path, b, 0o644)
		rep.Lines = append(rep.Lines, fmt.Sprintf("VIOLATION property=%s replay=%s", id, path))
		rep.Lines = append(rep.Lines, fmt.Sprintf("  key=%s confirmed=%s: %s", vr.Key, vr.Confirmed, firstLine(vr.Detail)))
		exit = 1
	}
	for k, n := range rep.Unsupported {
		rep.Lines = append(rep.Lines, fmt.Sprintf("INCONCLUSIVE: property=%s %d path(s) left the supported fragment: %s", id, n, k))
	}
	for _, e := range rep.EngineErrors {
		rep.Lines = append(rep.Lines, "INCONCLUSIVE: engine error: "+e)
	}
	if len(rep.NativeDiffs) > 0 {
		for _, d := range rep.NativeDiffs {
			rep.Lines = append(rep.Lines, "CROSSCHECK-MISMATCH: "+d)
		}
	}
	sort.Strings(rep.Lines)
	for _, l := range rep.Lines {
		fmt.Println(l)
	}
	wall := time.Since(t0).Seconds()
	writeEvidence(*verif, spec, rep, wall, nviol)
	fmt.Printf("%s %s: paths=%d obligations=%d discharged=%d inconclusive=%d violations=%d known=%d native_crosschecked=%d/%d wall=%.1fs solver_queries=%d solver_s=%.1f\n",
		id, *tier, rep.Paths, rep.Obligations, rep.Discharged, rep.Inconclusive, nviol, len(rep.Known), rep.NativeAgree, rep.NativeRuns, wall, gQueries, float64(gSolverNs)/1e9)
	return exit
}

func firstLine(s string) string {
	if i := strings.Index(s, "\n"); i >= 0 {
		s = s[:i]
	}
	if len(s) > 300 {
		s = s[:300]
	}
	return s
}

func sanitize(s string) string {
	var sb strings.Builder
	for _, c := range s {
		if (c >= 'a' && c <= 'z') || (c >= 'A' && c <= 'Z') || (c >= '0' && c <= '9') || c == '_' || c == '-' {
			sb.WriteRune(c)
		} else {
			sb.WriteByte('_')
		}
	}
	r := sb.String()
	if len(r) > 120 {
		r = r[:120]
	}
	return r
}

func loadKnown(verif string) *KnownFindings {
	kf := &KnownFindings{}
	b, err := os.ReadFile(filepath.Join(verif, "known_findings.json"))
	if err == nil {
		json.Unmarshal(b, kf)
	}
	return kf
}

func (k *KnownFindings) lookup(prop, key string) *Finding {
	for i := range k.Findings {
		f := &k.Findings[i]
		if f.Property == prop && f.Key == key {
			return f
		}
	}
	return nil
}

// nativeConfirms: the native run of the model shows the same failure.
func nativeConfirms(vr *ViolationReport, n *nativeResult) bool {
	key := vr.Key[len(vr.Harness)+1:]
	switch {
	case strings.HasPrefix(key, "assert:"):
		label := key[len("assert:"):]
		for _, a := range n.Asserts {
			if a.Label == label && !a.OK {
				return true
			}
		}
		return false
	case strings.HasPrefix(key, "panic:"):
		if n.Panic == "" && !n.died {
			return false
		}
		// the panicking function must appear in the native stack
		fn := key[len("panic:"):]
		// strip ":kind:srchash"
		for k := 0; k < 2; k++ {
			if i := strings.LastIndex(fn, ":"); i >= 0 {
				fn = fn[:i]
			}
		}
		short := fn
		if i := strings.LastIndex(short, "/"); i >= 0 {
			short = short[i+1:]
		}
		short = strings.NewReplacer("(", "", ")", "", "*", "").Replace(short)
		stack := strings.NewReplacer("(", "", ")", "", "*", "").Replace(n.PanicStack)
		return n.died || strings.Contains(stack, short)
	case strings.HasPrefix(key, "crash:"):
		return n.died || n.Panic != ""
	}
	return false
}

// nativeAgrees compares a passing symbolic path with its native run.
func nativeAgrees(p *PathResult, n *nativeResult) string {
	if n.Skipped {
		return ""
	}
	if n.WireReject != "" {
		return "" // model outside the wire contract's exact validity rules (counted as agreeing-vacuously)
	}
	if n.died {
		return "native process died"
	}
	if n.Panic != "" {
		return "native panic: " + firstLine(n.Panic)
	}
	if n.AssumeFail {
		return "native run violated an assumption"
	}
	for _, a := range n.Asserts {
		if !a.OK {
			return "native assertion failed: " + a.Label
		}
	}
	// same reach labels
	nr := map[string]bool{}
	for _, r := range n.Reached {
		nr[r] = true
	}
	for _, r := range p.Reached {
		if !nr[r] {
			return "native run did not reach " + r
		}
	}
	// same asserted labels (engine asserts that are native too)
	return ""
}

func overlayFile(repo, verif string) (string, error) {
	_, paths, err := harnessOverlayAll(repo, verif)
	if err != nil {
		return "", err
	}
	dir := filepath.Join(verif, "build", "tmp")
	os.MkdirAll(dir, 0o755)
	f := filepath.Join(dir, fmt.Sprintf("overlay_%d.json", os.Getpid()))
	b, _ := json.Marshal(map[string]interface{}{"Replace": paths})
	return f, os.WriteFile(f, b, 0o644)
}

// harnessOverlayAll includes the _test.go replay drivers.
func harnessOverlayAll(repo, verif string) (map[string][]byte, map[string]string, error) {
	paths := map[string]string{}
	for _, sub := range []struct{ src, dst string }{{"harness/gldap", ""}, {"harness/testdirectory", "testdirectory"}} {
		dir := filepath.Join(verif, sub.src)
		ents, err := os.ReadDir(dir)
		if err != nil {
			continue
		}
		for _, e := range ents {
			if e.IsDir() || !strings.HasSuffix(e.Name(), ".go") {
				continue
			}
			paths[filepath.Join(repo, sub.dst, "zz_verif_"+e.Name())] = filepath.Join(dir, e.Name())
		}
	}
	return nil, paths, nil
}

// runNative runs cases through the real build (go test -overlay); if the
// process dies (unrecovered goroutine panic) and isolate is set, cases are
// re-run one by one.
func runNative(repo, verif string, cases []nativeCase, isolate bool) []*nativeResult {
	byPkg := map[string][]int{}
	for i, c := range cases {
		pkg := "."
		if strings.HasPrefix(c.Harness, "H_TD_") {
			pkg = "./testdirectory"
		}
		byPkg[pkg] = append(byPkg[pkg], i)
	}
	out := make([]*nativeResult, len(cases))
	for pkg, idxs := range byPkg {
		sub := make([]nativeCase, len(idxs))
		for k, i := range idxs {
			sub[k] = cases[i]
		}
		res, ok := runNativeBatch(repo, verif, pkg, sub)
		if ok {
			for k, i := range idxs {
				if k < len(res) {
					out[i] = res[k]
				}
			}
			continue
		}
		if !isolate {
			continue
		}
		for k, i := range idxs {
			r, ok := runNativeBatch(repo, verif, pkg, sub[k:k+1])
			if ok && len(r) == 1 {
				out[i] = r[0]
			} else {
				out[i] = &nativeResult{Harness: sub[k].Harness, died: true}
			}
		}
	}
	return out
}

func runNativeBatch(repo, verif, pkg string, cases []nativeCase) ([]*nativeResult, bool) {
	ov, err := overlayFile(repo, verif)
	if err != nil {
		return nil, false
	}
	defer os.Remove(ov)
	dir := filepath.Join(verif, "build", "tmp")
	inF := filepath.Join(dir, fmt.Sprintf("replay_in_%d.json", os.Getpid()))
	outF := filepath.Join(dir, fmt.Sprintf("replay_out_%d.json", os.Getpid()))
	b, _ := json.Marshal(cases)
	os.WriteFile(inF, b, 0o644)
	os.Remove(outF)
	defer os.Remove(inF)
	defer os.Remove(outF)
	cmd := exec.Command("go", "test", "-tags", "verif", "-vet=off", "-count=1", "-timeout", "300s", "-overlay", ov, "-run", "^TestVerifReplay$", pkg)
	cmd.Dir = repo
	cmd.Env = append(os.Environ(), "GOFLAGS=-mod=mod", "GOPROXY=off", "GOSUMDB=off", "GOTOOLCHAIN=local", "VERIF_REPLAY="+inF, "VERIF_REPLAY_OUT="+outF)
	outb, _ := cmd.CombinedOutput()
	rb, err := os.ReadFile(outF)
	if err != nil {
		if os.Getenv("GOSYM_DEBUG") != "" {
			fmt.Fprintln(os.Stderr, "native replay failed:", string(outb))
		}
		return nil, false
	}
	var res []*nativeResult
	if json.Unmarshal(rb, &res) != nil {
		return nil, false
	}
	return res, true
}

func replayFile(repo, verif, path string) int {
	b, err := os.ReadFile(path)
	if err != nil {
		fmt.Fprintln(os.Stderr, err)
		return 2
	}
	var rf struct {
		Harness string                 `json:"harness"`
		Values  map[string]interface{} `json:"values"`
		Key     string                 `json:"key"`
	}
	json.Unmarshal(b, &rf)
	res := runNative(repo, verif, []nativeCase{{Harness: rf.Harness, Values: rf.Values}}, true)
	ob, _ := json.MarshalIndent(res, "", " ")
	fmt.Println(string(ob))
	return 0
}

func writeEvidence(verif string, spec *PropertySpec, rep *Report, wall float64, nviol int) {
	type kv struct {
		K string
		V int
	}
	var fl []kv
	for k, v := range rep.Funcs {
		fl = append(fl, kv{k, v})
	}
	sort.Slice(fl, func(i, j int) bool { return fl[i].V > fl[j].V })
	funcs := []string{}
	for i, f := range fl {
		if i >= 60 {
			break
		}
		funcs = append(funcs, fmt.Sprintf("%s (%d instr)", f.K, f.V))
	}
	stubs := []string{}
	for k := range rep.Stubs {
		if rep.Stubs[k] > 0 && !strings.Contains(k, ".v") {
			stubs = append(stubs, k)
		}
	}
	sort.Strings(stubs)
	samples := rep.Samples
	if len(samples) == 0 {
		samples = []interface{}{"no path produced a model (all obligations were decided on concrete terms)"}
	}
	if len(samples) > 8 {
		samples = samples[:8]
	}
	cov := map[string]interface{}{
		"states":                        rep.Paths,
		"transitions":                   int(gQueries),
		"traces_validated_against_impl": rep.NativeAgree,
		"samples":                       samples,
		"evaluations":                   rep.Paths,
		"distinct_nontrivial":           rep.Distinct,
		"rule":                          "evaluations = control-flow paths of the real SSA executed to their end by the symbolic interpreter (one path stands for every input that follows it); distinct_nontrivial = distinct completed paths whose path condition contains at least one symbolic decision or input and that reach at least one obligation (assertion or panic-freedom)",
		"obligations":                   rep.Obligations,
		"discharged":                    rep.Discharged,
		"inconclusive":                  rep.Inconclusive,
		"native_crosscheck_runs":        rep.NativeRuns,
		"native_crosscheck_mismatches":  rep.NativeDiffs,
		"functions_encoded":             funcs,
		"stubs_used":                    stubs,
		"bounds":                        rep.Bounds,
		"outside_claim":                 spec.Outside,
		"reach_witnesses":               rep.Reach,
		"unsupported_paths":             rep.Unsupported,
		"blocked_paths":                 rep.Blocked,
		"cut_paths":                     rep.Cuts,
		"known_findings_seen":           rep.Known,
		"harnesses":                     rep.HarnessStats,
		"second_solver":                 map[string]interface{}{"solver": "z3 5.1.0 (z3-new -in), thorough tier only", "obligations_rechecked": gCrossChecked, "disagreements": gCrossDisagree},
		"solver":                        map[string]interface{}{"primary": "z3 4.8.12 (/usr/bin/z3 -in)", "queries": gQueries, "sat": gSat, "unsat": gUnsat, "unknown": gUnknown, "errors": gSolverErr, "solver_seconds": float64(gSolverNs) / 1e9},
		"explanation":                   "states = paths explored; transitions = solver queries posed (feasibility + obligations); verdicts are the solver's over all values inside the stated bounds",
	}
	if rep.POStats != nil {
		cov["partial_order"] = rep.POStats
	}
	ev := map[string]interface{}{
		"property_id": spec.ID,
		"tier":        rep.Tier,
		"seed":        rep.Seed,
		"level":       "model_checking",
		"coverage":    cov,
		"assumptions": append([]string{
			"environment stubs (stubs_used) follow the contracts in DESIGN.md §5",
			"asn1-ber wire reader contract (§5.1); Go runtime, net, bufio, crypto/tls behind stubs",
			"string length ties (seq.len = BV length) are imposed when models are confirmed, not during pruning (sound over-approximation of feasibility)",
		}, spec.Outside...),
		"wall_s":     wall,
		"violations": nviol,
	}
	os.MkdirAll(filepath.Join(verif, "evidence"), 0o755)
	b, _ := json.MarshalIndent(ev, "", " ")
	os.WriteFile(filepath.Join(verif, "evidence", spec.ID+".json"), b, 0o644)
}
