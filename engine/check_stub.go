package main

func cmdCheck(args []string) int { return 2 }
