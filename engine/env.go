package main

// Environment stubs with state: sync, context, net, bufio, crypto/tls, hclog,
// and the asn1-ber wire reader (DESIGN §5.1, §5.3–5.5).

import (
	"net/netip"
	"strconv"
	"fmt"
	"go/token"
	"go/types"
	"strings"

	"golang.org/x/tools/go/ssa"
)

func (in *Interp) sideObj(v Value, kind string) *Obj {
	p, _ := v.(*Value)
	if p == nil {
		return nil
	}
	o := in.side[p]
	if o == nil {
		o = in.newObj(kind)
		in.side[p] = o
	}
	return o
}

func (in *Interp) emit(kind string, args ...string) {
	in.path.events = append(in.path.events, Event{Kind: kind, Args: args, Tid: in.curTid()})
}

func (in *Interp) ctxCancelled(fr *frame, ctx *Obj) bool {
	for c := ctx; c != nil; c = c.obj {
		if c.b {
			return true
		}
	}
	return false
}

func (in *Interp) namedType(pkgPath, name string) types.Type {
	p := in.P.Pkgs[pkgPath]
	if p == nil {
		panic("package not loaded: " + pkgPath)
	}
	m := p.Members[name]
	if m == nil {
		panic("no member " + pkgPath + "." + name)
	}
	return m.Type()
}

func (in *Interp) newTLSConn(raw Value, cfg Value) Value {
	t := in.namedType("crypto/tls", "Conn")
	cell := new(Value)
	*cell = in.zero(t)
	o := in.newObj("tlsconn")
	o.F["raw"] = raw
	o.F["cfg"] = cfg
	in.side[cell] = o
	in.emit("tls.wrap", in.connName(raw), fmt.Sprintf("cfg=%p", cfg))
	return cell
}

func (in *Interp) connName(v Value) string {
	switch x := v.(type) {
	case Iface:
		if x.T == nil {
			return "nil"
		}
		return in.connName(x.V)
	case *Obj:
		if s, ok := x.F["name"].(Str); ok {
			c, _ := s.Concrete()
			return c
		}
		return x.String()
	case *Value:
		if o := in.side[x]; o != nil && o.Kind == "tlsconn" {
			return "tls(" + in.connName(o.F["raw"]) + ")"
		}
	}
	return "?"
}

// rawConn resolves a net.Conn interface value to (netconn obj, tls layer obj or nil).
func (in *Interp) rawConn(v Value) (*Obj, *Obj) {
	switch x := v.(type) {
	case Iface:
		if x.T == nil {
			return nil, nil
		}
		return in.rawConn(x.V)
	case *Obj:
		if x.Kind == "netconn" {
			return x, nil
		}
	case *Value:
		if o := in.side[x]; o != nil && o.Kind == "tlsconn" {
			r, _ := in.rawConn(o.F["raw"])
			return r, o
		}
	}
	return nil, nil
}

func (in *Interp) tlsHandshake(fr *frame, t *Obj) Value {
	if t.F["hs"] != nil {
		if t.F["hs"].(bool) {
			return Iface{}
		}
		if e, ok := t.F["hsErr"]; ok {
			return e
		}
		return in.newError(CStr("tls: handshake failure"), nil)
	}
	raw, _ := in.rawConn(t.F["raw"])
	if raw != nil {
		if pend, _ := raw.F["tlsPending"].(bool); pend {
			// the client never sends its ClientHello
			in.emit("tls.handshake.begin", in.connName(t.F["raw"]))
			in.block("tls handshake "+in.connName(t.F["raw"]), func() bool { return raw.F["closed"] != nil || raw.F["deadline"] != nil })
			t.F["hs"] = false
			return in.newError(CStr("tls: handshake did not complete"), nil)
		}
	}
	ok := Value(true)
	if raw != nil && raw.F["tlsOK"] != nil {
		ok = raw.F["tlsOK"]
	}
	res := in.branch(ok, "tls handshake")
	t.F["hs"] = res
	in.emit("tls.handshake", in.connName(t.F["raw"]), fmt.Sprint(res))
	if res {
		return Iface{}
	}
	e := in.newError(CStr("tls: handshake failure"), nil)
	if raw != nil {
		if pt := raw.F["plaintextClient"]; pt != nil && in.branch(pt, "client speaks plaintext") {
			// the client's first bytes were not a TLS record: crypto/tls reports a
			// RecordHeaderError that carries the underlying connection
			rt := in.namedType("crypto/tls", "RecordHeaderError")
			st := rt.Underlying().(*types.Struct)
			v := in.zero(rt).(Struct)
			v[structFieldIndex(st, "Msg")] = CStr("first record does not look like a TLS handshake")
			v[structFieldIndex(st, "Conn")] = t.F["raw"]
			errObj(e).F["as:"+rt.String()] = v
			errObj(e).str = CStr("tls: first record does not look like a TLS handshake")
		}
	}
	t.F["hsErr"] = e
	return e
}

// connWrite writes s to a net.Conn value.
func (in *Interp) connWrite(fr *frame, dst Value, s Str) Value {
	raw, t := in.rawConn(dst)
	if raw == nil {
		if it, ok := dst.(Iface); ok && it.T != nil {
			if o, ok := it.V.(*Obj); ok && o.Kind == "capture" {
				o.str = concatStr(o.str, s)
				return Iface{}
			}
		}
		// a writer type of the code under test wrapped around the connection: run its Write
		if it, ok := dst.(Iface); ok && it.T != nil {
			// (concrete data only: chunking a symbolic-length buffer makes symbolic slice offsets)
			if _, conc := s.Concrete(); !conc {
				in.unsupported("write of symbolic data through the user-defined writer %v", it.T)
			}
			if f := in.P.Prog.LookupMethod(it.T, nil, "Write"); f != nil && f.Blocks != nil && in.canInterpret(f) {
				res := in.call(fr, f, []Value{it.V, SymBytes{s: s}}, nil, false)
				if tup, ok := res.(Tuple); ok && len(tup) == 2 {
					return tup[1]
				}
				return Iface{}
			}
		}
		in.unsupported("write to unknown writer %v", dst)
	}
	if t != nil {
		if e := in.tlsHandshake(fr, t); !isNilValue(e) {
			return e
		}
	}
	if raw.F["closed"] != nil {
		return in.newError(CStr("write: use of closed network connection"), nil)
	}
	wb, _ := raw.F["writeBlock"].(bool)
	if wa, _ := raw.F["writeBlockAfter1"].(bool); wa && len(raw.items2) >= 1 {
		wb = true // the client's receive window took one frame and is full now
	}
	if wb {
		// the client does not read: the write blocks until a write deadline or a close
		in.emit("write.begin", in.connName(dst))
		in.block("write "+in.connName(dst), func() bool { return raw.F["closed"] != nil || raw.F["wdeadline"] != nil })
		if raw.F["closed"] != nil {
			return in.newError(CStr("write: use of closed network connection"), nil)
		}
		return in.newError(CStr("write: i/o timeout"), nil)
	}
	// a write deadline: one that has passed fails the write at once; one that lies in the
	// future fails it if enough time has gone by meanwhile (a symbolic choice per connection,
	// sticky once taken: handler delays are part of what the properties quantify over)
	if wd, _ := raw.F["wdeadline"].(string); wd == "expired" {
		in.emit("write.timeout", in.connName(dst))
		return in.newError(CStr("write: i/o timeout"), nil)
	} else if wd == "armed" {
		passed := raw.F["wdeadlinePassed"]
		if passed == nil {
			v := in.tt.Var(fmt.Sprintf("time.passes.%s.writeDeadline.%d", in.connName(dst), len(in.path.inputs)), BoolSort)
			in.path.inputs = append(in.path.inputs, InputVar{Name: v.name, Kind: "bool", T: v})
			passed = boolVal(v)
			raw.F["wdeadlinePassed"] = passed
		}
		if in.branch(passed, "time passes beyond the write deadline") {
			raw.F["wdeadline"] = "expired"
			// the deadline may expire after part of the data has been sent (a client that reads
			// slowly): with "partialWrites" the first half of a concrete buffer reaches the client
			if pw, _ := raw.F["partialWrites"].(bool); pw {
				if c, ok := s.Concrete(); ok && len(c) >= 2 {
					half := CStr(c[:len(c)/2])
					in.emit("write.partial", in.connName(dst))
					raw.str = concatStr(raw.str, half)
					raw.items2 = append(raw.items2, writeRec{s: half, layer: "partial"})
				}
			}
			in.emit("write.timeout", in.connName(dst))
			return in.newError(CStr("write: i/o timeout"), nil)
		}
	}
	if wf := raw.F["writeFail"]; wf != nil {
		if in.branch(wf, "write failure") {
			in.emit("write.fail", in.connName(dst))
			return in.newError(CStr("write: broken pipe"), nil)
		}
	}
	layer := "plain"
	if t != nil {
		layer = "tls"
	}
	in.emit("write", in.connName(dst), layer)
	raw.str = concatStr(raw.str, s)
	raw.items2 = append(raw.items2, writeRec{s: s, layer: layer})
	return Iface{}
}

type writeRec struct {
	s     Str
	layer string
}

type feedItem struct {
	kind string // "packet", "error", "call", "eof", "block"
	pkt  *Value
	err  Value
	fn   Value
}

func (in *Interp) readFrame(fr *frame, src Value) Value {
	if it, ok := src.(Iface); ok && it.T != nil {
		if mo, ok := it.V.(*Obj); ok && mo.Kind == "multireader" {
			for _, part := range mo.items {
				pi, _ := part.(Iface)
				if pc, ok := pi.V.(*Value); ok {
					if bo := in.side[pc]; bo != nil && bo.Kind == "bytesreader" {
						if len(bo.items) > 0 {
							p := bo.items[0]
							bo.items = bo.items[1:]
							in.emit("read.frame", "buffered-plaintext", "plain")
							return Tuple{p, Iface{}}
						}
						continue
					}
				}
				return in.readFrame(fr, part)
			}
			return Tuple{(*Value)(nil), in.externalGlobalByName("io.EOF")}
		}
	}
	raw, t := in.rawConn(src)
	if raw == nil {
		in.unsupported("ReadPacket from unknown reader")
	}
	if t != nil {
		if e := in.tlsHandshake(fr, t); !isNilValue(e) {
			return Tuple{(*Value)(nil), e}
		}
	} else if raw.F["tlsOnly"] != nil {
		// bytes written for a TLS session are not LDAP
		return Tuple{(*Value)(nil), in.newError(CStr("invalid ber"), nil)}
	}
	for {
		if raw.F["closed"] != nil {
			return Tuple{(*Value)(nil), in.newError(CStr("read: use of closed network connection"), nil)}
		}
		if raw.F["deadlineStale"] != nil {
			in.emit("read.timeout", in.connName(src))
			return Tuple{(*Value)(nil), in.newError(CStr("i/o timeout"), nil)}
		}
		if raw.n >= len(raw.feed) {
			in.emit("read.eof", in.connName(src))
			return Tuple{(*Value)(nil), in.externalGlobalByName("io.EOF")}
		}
		it := raw.feed[raw.n]
		raw.n++
		layer := "plain"
		if t != nil {
			layer = "tls"
		}
		switch it.kind {
		case "packet":
			in.emit("read.frame", in.connName(src), layer)
			raw.framesRead++
			return Tuple{it.pkt, Iface{}}
		case "error":
			in.emit("read.err", in.connName(src))
			return Tuple{(*Value)(nil), it.err}
		case "eof":
			in.emit("read.eof", in.connName(src))
			return Tuple{(*Value)(nil), in.externalGlobalByName("io.EOF")}
		case "raw":
			// a stream that ends inside a BER element (the harness guarantees the bytes are
			// not a complete element): asn1-ber's reader reports the truncation (§5.1)
			in.emit("read.truncated", in.connName(src))
			if n, ok := it.err.(Str).ConcreteLen(); ok && n == 0 {
				return Tuple{(*Value)(nil), in.externalGlobalByName("io.EOF")}
			}
			return Tuple{(*Value)(nil), in.externalGlobalByName("io.ErrUnexpectedEOF")}
		case "block":
			// the client is idle: the read returns only through a deadline
			in.emit("read.begin", in.connName(src))
			in.block("read "+in.connName(src), func() bool { return raw.F["deadline"] != nil || raw.F["closed"] != nil })
			if raw.F["closed"] != nil {
				return Tuple{(*Value)(nil), in.newError(CStr("read: use of closed network connection"), nil)}
			}
			in.emit("read.timeout", in.connName(src))
			return Tuple{(*Value)(nil), in.newError(CStr("i/o timeout"), nil)}
		case "call":
			in.call(fr, it.fn, nil, nil, false)
		}
	}
}

func registerEnvIntrinsics() {
	I := intrinsics
	// ---- sync ----
	I["(*sync.Mutex).Lock"] = func(in *Interp, fr *frame, args []Value) (Value, bool) {
		in.maybePreempt("sync")
		o := in.sideObj(args[0], "mutex")
		if o == nil {
			fr.tpanic("nil-deref", in.runtimeError("invalid memory address or nil pointer dereference"))
		}
		in.block("lock "+o.String(), func() bool { return o.n == 0 })
		o.n = 1
		in.emit("lock", o.String())
		return nil, true
	}
	I["(*sync.Mutex).Unlock"] = func(in *Interp, fr *frame, args []Value) (Value, bool) {
		o := in.sideObj(args[0], "mutex")
		if o.n == 0 {
			// a fatal runtime error, not a panic: recover() does not stop it, the process dies
			tp := &targetPanic{v: CStr("fatal error: sync: unlock of unlocked mutex"), site: fr.where(), kind: "fatal", src: fr.srcLine()}
			in.crashes = append(in.crashes, tp)
			in.emit("CRASH", "fatal", tp.site, "sync: unlock of unlocked mutex")
			fr.tpanic("explicit", CStr("sync: unlock of unlocked mutex"))
		}
		o.n = 0
		in.emit("unlock", o.String())
		return nil, true
	}
	I["(*sync.RWMutex).Lock"] = func(in *Interp, fr *frame, args []Value) (Value, bool) {
		in.maybePreempt("sync")
		o := in.sideObj(args[0], "rwmutex")
		in.block("lock "+o.String(), func() bool { return o.n == 0 && !o.b })
		o.b = true
		in.emit("lock", o.String())
		return nil, true
	}
	I["(*sync.RWMutex).Unlock"] = func(in *Interp, fr *frame, args []Value) (Value, bool) {
		o := in.sideObj(args[0], "rwmutex")
		if !o.b {
			fr.tpanic("explicit", CStr("sync: Unlock of unlocked RWMutex"))
		}
		o.b = false
		in.emit("unlock", o.String())
		return nil, true
	}
	I["(*sync.RWMutex).RLock"] = func(in *Interp, fr *frame, args []Value) (Value, bool) {
		in.maybePreempt("sync")
		o := in.sideObj(args[0], "rwmutex")
		in.block("rlock "+o.String(), func() bool { return !o.b })
		o.n++
		in.emit("rlock", o.String())
		return nil, true
	}
	I["(*sync.RWMutex).RUnlock"] = func(in *Interp, fr *frame, args []Value) (Value, bool) {
		o := in.sideObj(args[0], "rwmutex")
		if o.n == 0 {
			fr.tpanic("explicit", CStr("sync: RUnlock of unlocked RWMutex"))
		}
		o.n--
		in.emit("runlock", o.String())
		return nil, true
	}
	I["(*sync.WaitGroup).Add"] = func(in *Interp, fr *frame, args []Value) (Value, bool) {
		in.maybePreempt("sync")
		o := in.sideObj(args[0], "waitgroup")
		d := in.concreteInt(fr, args[1], "WaitGroup.Add")
		fromZero := o.n == 0 && d > 0
		o.n += d
		if o.n < 0 {
			fr.tpanic("explicit", CStr("sync: negative WaitGroup counter"))
		}
		in.emit("wg.add", o.String(), fmt.Sprint(d))
		if fromZero {
			// sync.WaitGroup's rule (and what the race detector instruments): the first
			// increment from zero must be synchronised with Wait
			in.emit("sema.rd", "waitgroup-sema:"+o.String(), "add-from-zero")
		}
		return nil, true
	}
	I["(*sync.WaitGroup).Done"] = func(in *Interp, fr *frame, args []Value) (Value, bool) {
		in.maybePreempt("sync")
		o := in.sideObj(args[0], "waitgroup")
		o.n--
		if o.n < 0 {
			fr.tpanic("explicit", CStr("sync: negative WaitGroup counter"))
		}
		in.emit("wg.done", o.String())
		return nil, true
	}
	I["(*sync.WaitGroup).Wait"] = func(in *Interp, fr *frame, args []Value) (Value, bool) {
		in.maybePreempt("sync")
		o := in.sideObj(args[0], "waitgroup")
		in.emit("wg.wait.begin", o.String())
		if o.n > 0 && o.F["waiters"] == nil {
			in.emit("sema.wr", "waitgroup-sema:"+o.String(), "first-waiter")
		}
		if o.n > 0 {
			o.F["waiters"] = true
		}
		in.block("wg.wait "+o.String(), func() bool { return o.n <= 0 })
		delete(o.F, "waiters")
		in.emit("wg.wait", o.String())
		return nil, true
	}
	I["(*sync.Once).Do"] = func(in *Interp, fr *frame, args []Value) (Value, bool) {
		o := in.sideObj(args[0], "once")
		if !o.b {
			o.b = true
			in.call(fr, args[1], nil, nil, false)
		}
		return nil, true
	}

	// ---- sync.Pool: Put keeps the item, Get hands out the most recently put item or calls New
	// (the runtime may also drop items; handing them out again is the behaviour that matters) ----
	I["(*sync.Pool).Put"] = func(in *Interp, fr *frame, args []Value) (Value, bool) {
		o := in.sideObj(args[0], "pool")
		if it, ok := args[1].(Iface); ok && it.T == nil {
			return nil, true // Put(nil) is a no-op
		}
		o.items = append(o.items, args[1])
		in.emit("pool.put", o.String())
		return nil, true
	}
	I["(*sync.Pool).Get"] = func(in *Interp, fr *frame, args []Value) (Value, bool) {
		o := in.sideObj(args[0], "pool")
		if n := len(o.items); n > 0 {
			v := o.items[n-1]
			o.items = o.items[:n-1]
			in.emit("pool.get", o.String())
			return v, true
		}
		p, _ := args[0].(*Value)
		if p != nil {
			if st, ok := (*p).(Struct); ok {
				pt := in.namedType("sync", "Pool").Underlying().(*types.Struct)
				if nf := st[structFieldIndex(pt, "New")]; nf != nil && !isNilValue(nf) {
					return in.call(fr, nf, nil, nil, false), true
				}
			}
		}
		return Iface{}, true
	}

	// ---- sync/atomic (sequentially consistent in the cooperative scheduler; atomic
	// accesses are synchronisation, not race subjects: no rd/wr events) ----
	for _, at := range []struct {
		n string
		t types.Type
	}{{"Int32", types.Typ[types.Int32]}, {"Int64", types.Typ[types.Int64]}, {"Uint32", types.Typ[types.Uint32]}, {"Uint64", types.Typ[types.Uint64]}, {"Uintptr", types.Typ[types.Uintptr]}} {
		at := at
		ptr := func(fr *frame, in *Interp, v Value) *Value {
			p, _ := v.(*Value)
			if p == nil {
				fr.tpanic("nil-deref", in.runtimeError("invalid memory address or nil pointer dereference"))
			}
			return p
		}
		I["sync/atomic.Load"+at.n] = func(in *Interp, fr *frame, args []Value) (Value, bool) {
			in.maybePreempt("atomic")
			return copyVal(*ptr(fr, in, args[0])), true
		}
		I["sync/atomic.Store"+at.n] = func(in *Interp, fr *frame, args []Value) (Value, bool) {
			in.maybePreempt("atomic")
			*ptr(fr, in, args[0]) = copyVal(args[1])
			return nil, true
		}
		I["sync/atomic.Add"+at.n] = func(in *Interp, fr *frame, args []Value) (Value, bool) {
			in.maybePreempt("atomic")
			p := ptr(fr, in, args[0])
			*p = in.binopT(fr, token.ADD, at.t, at.t, *p, args[1])
			return copyVal(*p), true
		}
		I["sync/atomic.Swap"+at.n] = func(in *Interp, fr *frame, args []Value) (Value, bool) {
			in.maybePreempt("atomic")
			p := ptr(fr, in, args[0])
			old := *p
			*p = copyVal(args[1])
			return old, true
		}
		I["sync/atomic.CompareAndSwap"+at.n] = func(in *Interp, fr *frame, args []Value) (Value, bool) {
			in.maybePreempt("atomic")
			p := ptr(fr, in, args[0])
			eq := in.binopT(fr, token.EQL, at.t, at.t, *p, args[1])
			if in.branch(eq, "atomic.CompareAndSwap") {
				*p = copyVal(args[2])
				return true, true
			}
			return false, true
		}
	}

	// unsafe.Pointer words (atomic.Pointer[T]): the cell holds whatever pointer value was stored
	{
		ptr := func(fr *frame, in *Interp, v Value) *Value {
			p, _ := v.(*Value)
			if p == nil {
				fr.tpanic("nil-deref", in.runtimeError("invalid memory address or nil pointer dereference"))
			}
			return p
		}
		I["sync/atomic.LoadPointer"] = func(in *Interp, fr *frame, args []Value) (Value, bool) {
			in.maybePreempt("atomic")
			return *ptr(fr, in, args[0]), true
		}
		I["sync/atomic.StorePointer"] = func(in *Interp, fr *frame, args []Value) (Value, bool) {
			in.maybePreempt("atomic")
			*ptr(fr, in, args[0]) = args[1]
			return nil, true
		}
		I["sync/atomic.SwapPointer"] = func(in *Interp, fr *frame, args []Value) (Value, bool) {
			in.maybePreempt("atomic")
			p := ptr(fr, in, args[0])
			old := *p
			*p = args[1]
			return old, true
		}
		I["sync/atomic.CompareAndSwapPointer"] = func(in *Interp, fr *frame, args []Value) (Value, bool) {
			in.maybePreempt("atomic")
			p := ptr(fr, in, args[0])
			cur, _ := (*p).(*Value)
			old, _ := args[1].(*Value)
			if cur == old {
				*p = args[2]
				return true, true
			}
			return false, true
		}
	}

	// ---- context ----
	newCtx := func(in *Interp, parent Value) *Obj {
		o := in.newObj("ctx")
		if it, ok := parent.(Iface); ok && it.T != nil {
			if p, ok := it.V.(*Obj); ok {
				o.obj = p
			}
		}
		return o
	}
	I["context.Background"] = func(in *Interp, fr *frame, args []Value) (Value, bool) {
		return in.ifaceOf(in.newObj("ctx")), true
	}
	I["context.TODO"] = I["context.Background"]
	withCancel := func(in *Interp, fr *frame, args []Value) (Value, bool) {
		o := newCtx(in, args[0])
		cancel := &NativeFunc{Name: "cancel", Fn: func(in *Interp, a []Value) Value {
			in.maybePreempt("cancel")
			if !o.b {
				o.b = true
				in.emit("cancel", o.String())
			}
			return nil
		}}
		return Tuple{in.ifaceOf(o), cancel}, true
	}
	I["context.WithCancel"] = withCancel
	I["context.WithTimeout"] = withCancel
	I["context.WithDeadline"] = withCancel

	// ---- hclog ----
	logger := func(in *Interp, fr *frame, args []Value) (Value, bool) {
		return in.ifaceOf(in.newObj("logger")), true
	}
	for _, n := range []string{"New", "NewNullLogger", "Default", "L", "NewInterceptLogger"} {
		I["github.com/hashicorp/go-hclog."+n] = logger
	}

	// ---- bufio ----
	I["bufio.NewReader"] = func(in *Interp, fr *frame, args []Value) (Value, bool) {
		cell := new(Value)
		*cell = Struct{}
		o := in.newObj("bufreader")
		o.F["src"] = args[0]
		in.side[cell] = o
		return cell, true
	}
	I["bufio.NewWriter"] = func(in *Interp, fr *frame, args []Value) (Value, bool) {
		cell := new(Value)
		*cell = Struct{}
		o := in.newObj("bufwriter")
		o.F["dst"] = args[0]
		in.side[cell] = o
		return cell, true
	}
	// Peek: the next bytes of the stream without consuming them
	I["(*bufio.Reader).Peek"] = func(in *Interp, fr *frame, args []Value) (Value, bool) {
		o := in.sideObj(args[0], "bufreader")
		if o == nil {
			fr.tpanic("nil-deref", in.runtimeError("invalid memory address or nil pointer dereference"))
		}
		n := in.concreteInt(fr, args[1], "bufio.Reader.Peek")
		if n < 0 {
			return Tuple{Slice{}, in.newError(CStr("bufio: negative count"), nil)}, true
		}
		raw, t := in.rawConn(o.F["src"])
		if raw == nil || t != nil {
			in.unsupported("bufio.Reader.Peek on this reader")
		}
		for raw.n < len(raw.feed) && raw.feed[raw.n].kind == "call" {
			it := raw.feed[raw.n]
			raw.n++
			in.call(fr, it.fn, nil, nil, false)
		}
		eof := in.externalGlobalByName("io.EOF")
		if raw.F["closed"] != nil {
			return Tuple{Slice{}, in.newError(CStr("read: use of closed network connection"), nil)}, true
		}
		if raw.n >= len(raw.feed) {
			return Tuple{Slice{}, eof}, true
		}
		it := raw.feed[raw.n]
		switch it.kind {
		case "eof":
			return Tuple{Slice{}, eof}, true
		case "error":
			return Tuple{Slice{}, it.err}, true
		case "raw":
			s := it.err.(Str)
			ln, ok := s.ConcreteLen()
			if !ok {
				in.unsupported("Peek on raw bytes of symbolic length")
			}
			if ln >= n {
				return Tuple{SymBytes{s: in.strSlice(fr, s, Int(0), Int(n))}, Iface{}}, true
			}
			return Tuple{SymBytes{s: s}, eof}, true
		case "packet":
			// a whole frame is waiting: at least 2 bytes; its first n bytes are left
			// unconstrained here (over-approximation: any bytes)
			in.peekSeq++
			var bs []Value
			for i := 0; i < n; i++ {
				v := in.tt.Var(fmt.Sprintf("peek%d.b%d", in.peekSeq, i), BV(8))
				bs = append(bs, in.fromTerm(v, types.Typ[types.Uint8]))
			}
			return Tuple{SymBytes{s: strFromValues(bs)}, Iface{}}, true
		}
		in.unsupported("bufio.Reader.Peek with a %s item pending", it.kind)
		return nil, true
	}
	I["bufio.NewReaderSize"] = func(in *Interp, fr *frame, args []Value) (Value, bool) {
		return I["bufio.NewReader"](in, fr, args[:1])
	}
	I["bufio.NewWriterSize"] = func(in *Interp, fr *frame, args []Value) (Value, bool) {
		cell, _ := I["bufio.NewWriter"](in, fr, args[:1])
		n := in.concreteInt(fr, args[1], "bufio.NewWriterSize")
		if n <= 0 {
			n = 4096
		}
		in.side[cell.(*Value)].n = n
		return cell, true
	}
	// bytes already read ahead into a bufio.Reader: frames the client pipelined in
	// the same segment (connection flag "pipelined")
	I["(*bufio.Reader).Buffered"] = func(in *Interp, fr *frame, args []Value) (Value, bool) {
		o := in.sideObj(args[0], "bufreader")
		raw, _ := in.rawConn(o.F["src"])
		if raw == nil {
			return Int(0), true
		}
		if p := raw.F["pipelined"]; p == nil || !in.branch(p, "client pipelines plaintext") {
			return Int(0), true
		}
		n := 0
		for _, it := range raw.feed[raw.n:] {
			if it.kind == "packet" {
				n++
			} else {
				break
			}
		}
		return Int(n), true
	}
	I["io.ReadFull"] = func(in *Interp, fr *frame, args []Value) (Value, bool) {
		rd, _ := args[0].(Iface)
		cell, _ := rd.V.(*Value)
		o := in.side[cell]
		buf, ok := args[1].(Slice)
		if o == nil || o.Kind != "bufreader" || !ok {
			in.unsupported("io.ReadFull from %v", rd.T)
		}
		raw, _ := in.rawConn(o.F["src"])
		if raw == nil {
			in.unsupported("io.ReadFull: no connection")
		}
		var pk []Value
		for raw.n < len(raw.feed) && raw.feed[raw.n].kind == "packet" && len(pk) < buf.n {
			pk = append(pk, raw.feed[raw.n].pkt)
			raw.n++
		}
		in.drained[buf.arr] = pk
		in.emit("readahead.drain", in.connName(o.F["src"]), fmt.Sprint(len(pk)))
		return Tuple{Int(buf.n), Iface{}}, true
	}
	I["io.MultiReader"] = func(in *Interp, fr *frame, args []Value) (Value, bool) {
		o := in.newObj("multireader")
		o.items = variadicArgs(args[0])
		return in.ifaceOf(o), true
	}
	I["(*bufio.Writer).Write"] = func(in *Interp, fr *frame, args []Value) (Value, bool) {
		o := in.sideObj(args[0], "bufwriter")
		if o == nil {
			fr.tpanic("nil-deref", in.runtimeError("invalid memory address or nil pointer dereference"))
		}
		s, ok := in.sliceToSym(fr, args[1])
		if !ok {
			in.unsupported("bufio.Write of %T", args[1])
		}
		in.bufioTouch(fr, o, "Write")
		if e, bad := o.F["err"]; bad {
			return Tuple{Int(0), e}, true // bufio.Writer errors are sticky
		}
		// the destination is a writer type of the code under test and the data concrete: follow
		// bufio.Writer.Write literally, honouring the byte counts that writer returns
		if raw, _ := in.rawConn(o.F["dst"]); raw == nil {
			if data, conc := s.Concrete(); conc {
				if bl, ok := o.str.ConcreteLen(); ok && bl == 0 {
					if it, ok := o.F["dst"].(Iface); ok && it.T != nil {
						if f := in.P.Prog.LookupMethod(it.T, nil, "Write"); f != nil && f.Blocks != nil && in.canInterpret(f) {
							nn := 0
							p := data
							for len(p) > bufSize(o) {
								res := in.call(fr, f, []Value{it.V, SymBytes{s: CStr(p)}}, nil, false)
								tup, _ := res.(Tuple)
								if len(tup) != 2 {
									in.unsupported("user writer returned %T", res)
								}
								n := in.concreteInt(fr, tup[0], "user Write count")
								if n < 0 || n > len(p) {
									fr.tpanic("explicit", CStr("bufio: writer returned invalid count from Write"))
								}
								nn += n
								p = p[n:]
								if !isNilValue(tup[1]) {
									o.F["err"] = tup[1]
									return Tuple{Int(nn), tup[1]}, true
								}
								if n == 0 {
									e := in.newError(CStr("short write"), nil)
									o.F["err"] = e
									return Tuple{Int(nn), e}, true
								}
							}
							o.str = CStr(p)
							return Tuple{Int(nn + len(p)), Iface{}}, true
						}
					}
				}
			}
		}
		// a write larger than the buffer, on an empty buffer, goes straight to the connection
		if n, ok := o.str.ConcreteLen(); ok && n == 0 {
			big := in.tt.BVCmp("bvugt", s.LenTerm(in.tt), in.tt.BVConst(uint64(bufSize(o)), 64))
			if in.branch(boolVal(big), "bufio direct write") {
				if e := in.connWrite(fr, o.F["dst"], s); !isNilValue(e) {
					o.F["err"] = e
					return Tuple{Int(0), e}, true
				}
				return Tuple{s.LenValue(in.tt), Iface{}}, true
			}
		}
		o.str = concatStr(o.str, s)
		return Tuple{s.LenValue(in.tt), Iface{}}, true
	}
	// Reset discards buffered data and errors and retargets the object: a write to
	// the bufio object's state like every other method call (not thread-safe)
	I["(*bufio.Writer).Reset"] = func(in *Interp, fr *frame, args []Value) (Value, bool) {
		o := in.sideObj(args[0], "bufwriter")
		if o == nil {
			fr.tpanic("nil-deref", in.runtimeError("invalid memory address or nil pointer dereference"))
		}
		in.bufioTouch(fr, o, "Reset")
		o.str = Str{}
		delete(o.F, "err")
		o.F["dst"] = args[1]
		return nil, true
	}
	I["(*bufio.Reader).Reset"] = func(in *Interp, fr *frame, args []Value) (Value, bool) {
		o := in.sideObj(args[0], "bufreader")
		if o == nil {
			fr.tpanic("nil-deref", in.runtimeError("invalid memory address or nil pointer dereference"))
		}
		// read-ahead bytes (frames the client pipelined in the same segment) are dropped
		if raw, _ := in.rawConn(o.F["src"]); raw != nil {
			if p := raw.F["pipelined"]; p != nil && in.branch(p, "client pipelines plaintext") {
				in.unsupported("bufio.Reader.Reset with read-ahead data")
			}
		}
		delete(o.F, "err")
		o.F["src"] = args[1]
		return nil, true
	}
	I["(*bufio.Writer).WriteString"] = func(in *Interp, fr *frame, args []Value) (Value, bool) {
		return I["(*bufio.Writer).Write"](in, fr, args)
	}
	I["(*bufio.Writer).Size"] = func(in *Interp, fr *frame, args []Value) (Value, bool) {
		return Int(bufSize(in.sideObj(args[0], "bufwriter"))), true
	}
	I["(*bufio.Writer).Buffered"] = func(in *Interp, fr *frame, args []Value) (Value, bool) {
		o := in.sideObj(args[0], "bufwriter")
		return o.str.LenValue(in.tt), true
	}
	I["(*bufio.Writer).Available"] = func(in *Interp, fr *frame, args []Value) (Value, bool) {
		o := in.sideObj(args[0], "bufwriter")
		if n, ok := o.str.ConcreteLen(); ok {
			return Int(bufSize(o) - n), true
		}
		return in.fromTerm(in.tt.BVOp("bvsub", in.tt.BVConst(uint64(bufSize(o)), 64), o.str.LenTerm(in.tt)), types.Typ[types.Int]), true
	}
	I["(*bufio.Writer).Flush"] = func(in *Interp, fr *frame, args []Value) (Value, bool) {
		o := in.sideObj(args[0], "bufwriter")
		if o == nil {
			fr.tpanic("nil-deref", in.runtimeError("invalid memory address or nil pointer dereference"))
		}
		in.bufioTouch(fr, o, "Flush")
		if e, bad := o.F["err"]; bad {
			return e, true // sticky
		}
		if n, ok := o.str.ConcreteLen(); ok && n == 0 {
			return Iface{}, true
		}
		s := o.str
		o.str = Str{}
		e := in.connWrite(fr, o.F["dst"], s)
		if !isNilValue(e) {
			o.F["err"] = e
		}
		return e, true
	}

	// ---- net / tls ----
	I["net.Listen"] = func(in *Interp, fr *frame, args []Value) (Value, bool) {
		env := in.env
		in.emit("listen", fmt.Sprint(args[1]))
		busy := func() Value {
			in.emit("listen.err")
			e := in.newError(CStr("listen tcp: bind: address already in use"), nil)
			errObj(e).F["errno"] = Int(98) // EADDRINUSE
			return Tuple{Iface{}, e}
		}
		// like the real net.Listen: a port outside 0..65535 (or not a number) is refused
		if a, ok := args[1].(Str); ok {
			if c, ok := a.Concrete(); ok {
				if i := strings.LastIndexByte(c, ':'); i >= 0 {
					if pn, err := strconv.Atoi(c[i+1:]); err != nil || pn < 0 || pn > 65535 {
						in.emit("listen.err")
						return Tuple{Iface{}, in.newError(CStr("listen tcp: address "+c[i+1:]+": invalid port"), nil)}, true
					}
				}
			}
		}
		nth, _ := env.F["listenCalls"].(Int)
		env.F["listenCalls"] = nth + 1
		if once := env.F["listenBusyOnce"]; once != nil && nth == 0 && in.branch(once, "address briefly in use") {
			return busy(), true // only the first attempt finds the address taken
		}
		if fail := env.F["listenErr"]; fail != nil && in.branch(fail, "net.Listen outcome") {
			return busy(), true
		}
		l := in.newObj("listener")
		l.F["addr"] = args[1]
		env.items = append(env.items, l)
		in.emit("listen.ok", l.String())
		return Tuple{in.ifaceOf(l), Iface{}}, true
	}
	I["crypto/tls.NewListener"] = func(in *Interp, fr *frame, args []Value) (Value, bool) {
		l := in.newObj("listener")
		inner := args[0].(Iface)
		l.F["inner"] = inner.V
		l.F["cfg"] = args[1]
		in.emit("tls.listener", fmt.Sprintf("cfg=%p", args[1]))
		return in.ifaceOf(l), true
	}
	I["(*crypto/tls.Config).Clone"] = func(in *Interp, fr *frame, args []Value) (Value, bool) {
		p, _ := args[0].(*Value)
		if p == nil {
			return (*Value)(nil), true
		}
		cell := new(Value)
		*cell = copyVal(*p)
		return cell, true
	}
	I["crypto/x509.NewCertPool"] = func(in *Interp, fr *frame, args []Value) (Value, bool) {
		cell := new(Value)
		*cell = in.zero(in.namedType("crypto/x509", "CertPool"))
		return cell, true
	}
	// certificate pools count what is put into them; pem.Encode writes one token per block
	// (the certificates themselves are behind the opaque crypto stubs)
	I["encoding/pem.Encode"] = func(in *Interp, fr *frame, args []Value) (Value, bool) {
		in.pemSeq++
		in.writeTo(fr, args[0], CStr(fmt.Sprintf("-----PEM BLOCK %d-----\n", in.pemSeq)))
		return Iface{}, true
	}
	I["(*crypto/x509.CertPool).AppendCertsFromPEM"] = func(in *Interp, fr *frame, args []Value) (Value, bool) {
		o := in.sideObj(args[0], "certpool")
		data, ok := in.sliceToSym(fr, args[1])
		if !ok {
			return nil, false
		}
		c, conc := data.Concrete()
		if !conc {
			in.unsupported("AppendCertsFromPEM of symbolic data")
		}
		n := strings.Count(c, "-----PEM BLOCK ")
		o.n += n
		return n > 0, true
	}
	// certificates issued by a parent other than themselves (leaf certificates): counted
	// when their template lets the holder sign further certificates (IsCA / KeyUsageCertSign),
	// which would let a certificate the configured CA never issued verify against its pool
	I["crypto/x509.CreateCertificate"] = func(in *Interp, fr *frame, args []Value) (Value, bool) {
		tmpl, _ := args[1].(*Value)
		parent, _ := args[2].(*Value)
		if tmpl != nil && parent != nil && tmpl != parent {
			if st, ok := (*tmpl).(Struct); ok {
				ct := in.namedType("crypto/x509", "Certificate").Underlying().(*types.Struct)
				signer := false
				for i := 0; i < ct.NumFields(); i++ {
					switch ct.Field(i).Name() {
					case "IsCA":
						if b, ok := st[i].(bool); !ok {
							in.unsupported("x509.CreateCertificate with symbolic IsCA")
						} else if b {
							signer = true
						}
					case "KeyUsage":
						if k, ok := st[i].(Int); !ok {
							in.unsupported("x509.CreateCertificate with symbolic KeyUsage")
						} else if k&32 != 0 { // x509.KeyUsageCertSign
							signer = true
						}
					}
				}
				in.issuedLeaves++
				if signer {
					in.issuedSigners++
				}
			}
		}
		return in.opaqueResult(fr.in.P.Pkgs["crypto/x509"].Func("CreateCertificate").Signature.Results()), true
	}
	I["(*crypto/x509.CertPool).AddCert"] = func(in *Interp, fr *frame, args []Value) (Value, bool) {
		in.sideObj(args[0], "certpool").n++
		return nil, true
	}
	I["crypto/tls.Server"] = func(in *Interp, fr *frame, args []Value) (Value, bool) {
		return in.newTLSConn(args[0], args[1]), true
	}
	I["(*crypto/tls.Conn).Handshake"] = func(in *Interp, fr *frame, args []Value) (Value, bool) {
		o := in.sideObj(args[0], "tlsconn")
		return in.tlsHandshake(fr, o), true
	}
	I["(*crypto/tls.Conn).HandshakeContext"] = I["(*crypto/tls.Conn).Handshake"]
	I["(*crypto/tls.Conn).NetConn"] = func(in *Interp, fr *frame, args []Value) (Value, bool) {
		o := in.sideObj(args[0], "tlsconn")
		return o.F["raw"], true
	}
	tlsDelegate := func(method string) intrinsicFn {
		return func(in *Interp, fr *frame, args []Value) (Value, bool) {
			o := in.sideObj(args[0], "tlsconn")
			raw, _ := in.rawConn(o.F["raw"])
			if raw == nil {
				in.unsupported("tls conn without raw conn")
			}
			return in.objMethod(fr, raw, method, args[1:]), true
		}
	}
	for _, m := range []string{"Close", "SetReadDeadline", "SetWriteDeadline", "SetDeadline", "RemoteAddr", "LocalAddr"} {
		I["(*crypto/tls.Conn)."+m] = tlsDelegate(m)
	}
	I["(*net.Resolver).LookupHost"] = func(in *Interp, fr *frame, args []Value) (Value, bool) {
		// nondeterministic: resolves or not
		res := in.env.F["resolves"]
		if res == nil {
			res = true
		}
		if in.branch(res, "LookupHost") {
			return Tuple{strSliceValue([]string{"127.0.0.1"}), Iface{}}, true
		}
		return Tuple{Slice{}, in.newError(CStr("no such host"), nil)}, true
	}
	I["net.ParseIP"] = func(in *Interp, fr *frame, args []Value) (Value, bool) {
		c := in.needConcrete(fr, "net.ParseIP", args[0])
		ok := parseIPLike(c[0])
		if !ok {
			return Slice{}, true
		}
		arr := make([]Value, 16)
		for i := range arr {
			arr[i] = Int(0)
		}
		return Slice{arr: &arr, n: 16, cp: 16}, true
	}
	// netip.Addr values carry their text in the first field (the engine's values are
	// dynamically typed; only the operations below look inside)
	I["net/netip.ParseAddr"] = func(in *Interp, fr *frame, args []Value) (Value, bool) {
		c := in.needConcrete(fr, "netip.ParseAddr", args[0])
		z := in.zero(fr.curInstr.(ssa.Value).Type().(*types.Tuple).At(0).Type())
		a, err := netip.ParseAddr(c[0])
		if err == nil {
			if st, ok := z.(Struct); ok && len(st) > 0 {
				st[0] = CStr(a.String())
			}
			return Tuple{z, Iface{}}, true
		}
		return Tuple{z, in.newError(CStr("ParseAddr: unable to parse IP"), nil)}, true
	}
	addrOf := func(v Value) (netip.Addr, bool) {
		st, ok := v.(Struct)
		if !ok || len(st) == 0 {
			return netip.Addr{}, false
		}
		s, ok := st[0].(Str)
		if !ok {
			return netip.Addr{}, true // the zero Addr
		}
		c, _ := s.Concrete()
		a, err := netip.ParseAddr(c)
		return a, err == nil
	}
	for name, f := range map[string]func(netip.Addr) bool{
		"Is4": netip.Addr.Is4, "Is6": netip.Addr.Is6, "IsValid": netip.Addr.IsValid, "Is4In6": netip.Addr.Is4In6,
		"IsLoopback": netip.Addr.IsLoopback, "IsUnspecified": netip.Addr.IsUnspecified,
	} {
		f := f
		I["(net/netip.Addr)."+name] = func(in *Interp, fr *frame, args []Value) (Value, bool) {
			a, ok := addrOf(args[0])
			if !ok {
				return nil, false
			}
			return f(a), true
		}
	}
	I["(net/netip.Addr).String"] = func(in *Interp, fr *frame, args []Value) (Value, bool) {
		a, ok := addrOf(args[0])
		if !ok {
			return nil, false
		}
		return CStr(a.String()), true
	}
	I["net/netip.AddrPortFrom"] = func(in *Interp, fr *frame, args []Value) (Value, bool) {
		z := in.zero(fr.curInstr.(ssa.Value).Type())
		st, ok := z.(Struct)
		if !ok || len(st) < 2 {
			return nil, false
		}
		st[0] = copyVal(args[0])
		st[1] = args[1]
		return st, true
	}
	I["(net/netip.AddrPort).String"] = func(in *Interp, fr *frame, args []Value) (Value, bool) {
		st, ok := args[0].(Struct)
		if !ok || len(st) < 2 {
			return nil, false
		}
		a, ok := addrOf(st[0])
		p, okp := st[1].(Int)
		if !ok || !okp {
			return nil, false
		}
		return CStr(netip.AddrPortFrom(a, uint16(p)).String()), true
	}

	// ---- asn1-ber wire reader ----
	I[berPath+".ReadPacket"] = func(in *Interp, fr *frame, args []Value) (Value, bool) {
		rd := args[0].(Iface)
		if rd.T == nil {
			fr.tpanic("nil-deref", in.runtimeError("invalid memory address or nil pointer dereference"))
		}
		cell, _ := rd.V.(*Value)
		o := in.side[cell]
		if o == nil {
			in.unsupported("ReadPacket from %v", rd.T)
		}
		switch o.Kind {
		case "bufreader":
			return in.readFrame(fr, o.F["src"]), true
		}
		in.unsupported("ReadPacket from %s", o.Kind)
		return nil, true
	}
	I[berPath+".DecodePacketErr"] = func(in *Interp, fr *frame, args []Value) (Value, bool) {
		return in.decodePacket(fr, args[0], true), true
	}
	I[berPath+".DecodePacket"] = func(in *Interp, fr *frame, args []Value) (Value, bool) {
		t := in.decodePacket(fr, args[0], true).(Tuple)
		return t[0], true
	}
	I["(*"+berPath+".Packet).Bytes"] = func(in *Interp, fr *frame, args []Value) (Value, bool) {
		p, _ := args[0].(*Value)
		if p == nil {
			fr.tpanic("nil-deref", in.runtimeError("invalid memory address or nil pointer dereference"))
		}
		if n, ok := in.symNode[p]; ok {
			// re-encoding of a symbolic wire node: opaque (a function of the node)
			if n.enc == nil {
				s := in.opaqueStr(n.name + ".enc")
				n.enc = &s
			}
			return SymBytes{s: *n.enc}, true
		}
		f := in.P.Prog.LookupMethod(types.NewPointer(in.berType("Packet")), in.P.Ber.Pkg, "Bytes")
		r := in.callFunction(fr, f, args, nil)
		if s, ok := in.sliceToSym(fr, r); ok {
			in.bytesMemo[s.key()] = p
		}
		return r, true
	}
	// ber.ParseInt64 on content of symbolic length: one fork (longer than 8
	// octets -> error) and the defining term otherwise, instead of nine loop
	// unrollings.  Concrete-length input runs the real SSA.
	I[berPath+".ParseInt64"] = func(in *Interp, fr *frame, args []Value) (Value, bool) {
		sb, ok := args[0].(SymBytes)
		if !ok {
			return nil, false
		}
		if _, ok := sb.s.ConcreteLen(); ok {
			return nil, false
		}
		// ParseInt64(encodeInteger(x)) == x (lemma L-int, discharged on the real SSA by the C04 lemma harness)
		if len(sb.s.p) == 1 && sb.s.p[0].k == pkAtom && sb.s.p[0].t.op == "uf" && sb.s.p[0].t.name == smtName("encint") {
			return Tuple{in.fromTerm(sb.s.p[0].t.args[0], types.Typ[types.Int64]), Iface{}}, true
		}
		tooLong := in.tt.BVCmp("bvugt", sb.s.LenTerm(in.tt), in.tt.BVConst(8, 64))
		if in.branch(boolVal(tooLong), "ParseInt64 length") {
			return Tuple{Int(0), in.newError(CStr("integer too large"), nil)}, true
		}
		return Tuple{in.fromTerm(in.parseIntOf(sb.s), types.Typ[types.Int64]), Iface{}}, true
	}
	I[berPath+".encodeLength"] = func(in *Interp, fr *frame, args []Value) (Value, bool) {
		if !in.summaries["encodeLength"] {
			return nil, false
		}
		t, ok := args[0].(*Term)
		if !ok {
			return nil, false
		}
		seq := in.tt.UF("enclen", SeqSort, t)
		ln := in.tt.UF("enclen_len", BV(64), t)
		key := fmt.Sprintf("enclen|%d", t.id)
		if !in.fmtAsserted[key] {
			in.fmtAsserted[key] = true
			in.assume(in.tt.BVCmp("bvuge", ln, in.tt.BVConst(1, 64)))
			in.assume(in.tt.BVCmp("bvule", ln, in.tt.BVConst(9, 64)))
		}
		return SymBytes{s: Str{p: []piece{{k: pkAtom, t: seq, n: ln}}}}, true
	}
	I[berPath+".encodeInteger"] = func(in *Interp, fr *frame, args []Value) (Value, bool) {
		if !in.summaries["encodeInteger"] {
			return nil, false
		}
		t, ok := args[0].(*Term)
		if !ok {
			return nil, false
		}
		seq := in.tt.UF("encint", SeqSort, t)
		ln := in.tt.UF("encint_len", BV(64), t)
		key := fmt.Sprintf("encint|%d", t.id)
		if !in.fmtAsserted[key] {
			in.fmtAsserted[key] = true
			in.assume(in.tt.BVCmp("bvuge", ln, in.tt.BVConst(1, 64)))
			in.assume(in.tt.BVCmp("bvule", ln, in.tt.BVConst(8, 64)))
			// one content octet exactly for -128..127, and then it is the low byte (from int64Length/encodeInteger)
			small := in.tt.And(in.tt.BVCmp("bvsge", t, in.tt.BVConst(uint64(0xffffffffffffff80), 64)), in.tt.BVCmp("bvsle", t, in.tt.BVConst(127, 64)))
			in.assume(in.tt.Eq(small, in.tt.Eq(ln, in.tt.BVConst(1, 64))))
			in.assume(in.tt.Implies(small, in.tt.Eq(in.tt.SeqNth(seq, in.tt.IntConst(0)), in.tt.Extract(7, 0, t))))
		}
		return SymBytes{s: Str{p: []piece{{k: pkAtom, t: seq, n: ln}}}}, true
	}
	// AppendChild copies the child's encoding into the parent: remember the child's
	// buffer (a later write to it does not reach the parent's bytes); the body itself is interpreted
	I["(*"+berPath+".Packet).AppendChild"] = func(in *Interp, fr *frame, args []Value) (Value, bool) {
		if cp, _ := args[1].(*Value); cp != nil {
			if _, sym := in.symNode[cp]; !sym {
				if cs, ok := (*cp).(Struct); ok {
					st := in.P.Ber.Type("Packet").Type().Underlying().(*types.Struct)
					if dp, _ := cs[structFieldIndex(st, "Data")].(*Value); dp != nil {
						if in.appended == nil {
							in.appended = map[*Value]bool{}
						}
						in.appended[dp] = true
					}
				}
			}
		}
		return nil, false
	}
	I["github.com/go-ldap/ldap/v3.DecompileFilter"] = func(in *Interp, fr *frame, args []Value) (Value, bool) {
		p, _ := args[0].(*Value)
		if p == nil {
			return Tuple{Str{}, in.newError(CStr("nil filter packet"), nil)}, true
		}
		// uninterpreted total function of the node's content: (string, error)
		key := in.nodeKey(p)
		if r, ok := in.filterMemo[key]; ok {
			return r, true
		}
		// exact text for the simple concrete shapes (present, and equality / >= / <= / ~=
		// over two primitive children with a value of known length <= 8): go-ldap's
		// DecompileFilter + EscapeFilter, validated natively by the cross-check
		if txt, ok := in.simpleFilterText(fr, p); ok {
			r := Tuple{txt, Iface{}}
			in.filterMemo[key] = r
			return r, true
		}
		in.filterSeq++
		okv := in.tt.Var(fmt.Sprintf("filter%d.ok", in.filterSeq), BoolSort)
		in.path.inputs = append(in.path.inputs, InputVar{Name: okv.name, Kind: "bool", T: okv})
		var r Value
		if in.summaries["filterOK"] {
			in.assume(okv) // the harness states that this filter is well formed
		}
		if in.branch(boolVal(okv), "DecompileFilter") {
			s := in.inputStr(fmt.Sprintf("filter%d.text", in.filterSeq))
			in.emit("filter", key)
			r = Tuple{s, Iface{}}
		} else {
			r = Tuple{Str{}, in.newError(CStr("ldap: error decompiling filter"), nil)}
		}
		in.filterMemo[key] = r
		in.filterNode[in.filterSeq] = p
		return r, true
	}
}

// nodeKey identifies a packet by content (identifier, data, children).
func (in *Interp) nodeKey(p *Value) string {
	if p == nil {
		return "nil"
	}
	if n, ok := in.symNode[p]; ok {
		return "sym:" + n.name
	}
	st := in.P.Ber.Type("Packet").Type().Underlying().(*types.Struct)
	s := (*p).(Struct)
	id := s[structFieldIndex(st, "Identifier")].(Struct)
	var sb strings.Builder
	for _, f := range id {
		switch x := f.(type) {
		case Int:
			fmt.Fprintf(&sb, "%d,", uint64(x))
		case *Term:
			fmt.Fprintf(&sb, "t%d,", x.id)
		}
	}
	if dp, _ := s[structFieldIndex(st, "Data")].(*Value); dp != nil {
		if o := in.side[dp]; o != nil {
			sb.WriteString(o.str.key())
		}
	}
	kids := s[structFieldIndex(st, "Children")].(Slice)
	if kids.symLen == nil && kids.arr != nil {
		sb.WriteString("[")
		for i := 0; i < kids.n; i++ {
			if kp, ok := (*kids.arr)[kids.off+i].(*Value); ok {
				sb.WriteString(in.nodeKey(kp))
				sb.WriteString(";")
			}
		}
		sb.WriteString("]")
	}
	return sb.String()
}

func parseIPLike(s string) bool {
	if s == "" {
		return false
	}
	if strings.Contains(s, ":") {
		for _, c := range s {
			if !(c == ':' || c == '.' || (c >= '0' && c <= '9') || (c >= 'a' && c <= 'f') || (c >= 'A' && c <= 'F')) {
				return false
			}
		}
		return strings.Count(s, ":") >= 2
	}
	parts := strings.Split(s, ".")
	if len(parts) != 4 {
		return false
	}
	for _, p := range parts {
		if p == "" || len(p) > 3 {
			return false
		}
		n := 0
		for _, c := range p {
			if c < '0' || c > '9' {
				return false
			}
			n = n*10 + int(c-'0')
		}
		if n > 255 {
			return false
		}
	}
	return true
}

func (in *Interp) decodePacket(fr *frame, b Value, withErr bool) Value {
	s, ok := in.sliceToSym(fr, b)
	if !ok {
		in.unsupported("DecodePacket of %T", b)
	}
	if p, ok := in.bytesMemo[s.key()]; ok {
		// bytes are exactly p.Bytes(): the reader returns the wire image of p
		// (round-trip contract of asn1-ber, cross-checked natively on replay)
		return Tuple{in.wireCopy(fr, p), Iface{}}
	}
	in.decSeq++
	name := fmt.Sprintf("dec%d", in.decSeq)
	okv := in.tt.Var(name+".ok", BoolSort)
	in.path.inputs = append(in.path.inputs, InputVar{Name: okv.name, Kind: "bool", T: okv})
	if !in.branch(boolVal(okv), "DecodePacketErr") {
		return Tuple{(*Value)(nil), in.newError(CStr("ber: decode error"), nil)}
	}
	widths, def := parseWidths(in.cfg.DecodeWidths)
	n := in.newSymNode(name, "", in.cfg.DecodeDepth, widths, def)
	in.decoded = append(in.decoded, decodedRec{src: s, node: n})
	return Tuple{n.cell, Iface{}}
}

type decodedRec struct {
	src  Str
	node *SymNode
}

// bufioTouch records method calls on a bufio.Writer for the unsynchronised-use check.
func (in *Interp) bufioTouch(fr *frame, o *Obj, method string) {
	in.emit("bufio."+method, o.String())
}

// objMethod dispatches interface method calls on opaque environment objects.
func (in *Interp) objMethod(fr *frame, o *Obj, name string, args []Value) Value {
	in.usedStubs["("+o.Kind+")."+name]++
	switch o.Kind {
	case "error":
		switch name {
		case "Error":
			return in.errorMessage(o)
		case "Unwrap":
			if w := o.F["wrapped"]; w != nil {
				return w
			}
			return Iface{}
		case "Timeout", "Temporary":
			if v, ok := o.F[name]; ok {
				return v
			}
			return false
		}
	case "logger":
		switch name {
		case "IsDebug", "IsInfo", "IsWarn", "IsError":
			if d := o.F["debug"]; d != nil {
				return in.branch(d, "logger at debug level")
			}
			return false
		case "IsTrace":
			return false
		case "Named", "With", "ResetNamed":
			return in.ifaceOf(o)
		case "StandardWriter":
			return in.ifaceOf(in.newObj("capture"))
		case "StandardLogger":
			return (*Value)(nil)
		case "GetLevel":
			return Int(5)
		case "Name":
			return CStr("")
		case "ImpliedArgs":
			return Slice{}
		}
		return nil // Debug, Info, Warn, Error, Trace, Log, SetLevel
	case "ctx":
		switch name {
		case "Done":
			return &Chan{ctx: o}
		case "Err":
			// an observation of the context's state, like a non-blocking receive from Done()
			in.emit("poll", o.String(), fmt.Sprint(in.ctxCancelled(fr, o)))
			if in.ctxCancelled(fr, o) {
				return in.newError(CStr("context canceled"), nil)
			}
			return Iface{}
		case "Value":
			return Iface{}
		case "Deadline":
			return Tuple{in.zero(in.namedType("time", "Time")), false}
		}
	case "netconn":
		nm := in.connName(o)
		switch name {
		case "Write":
			s, ok := in.sliceToSym(fr, args[0])
			if !ok {
				in.unsupported("conn.Write of %T", args[0])
			}
			e := in.connWrite(fr, o, s)
			if !isNilValue(e) {
				return Tuple{Int(0), e}
			}
			return Tuple{s.LenValue(in.tt), Iface{}}
		case "Close":
			c := 0
			if v, ok := o.F["closed"].(Int); ok {
				c = int(v)
			}
			o.F["closed"] = Int(c + 1)
			in.emit("close", nm)
			if ce := o.F["closeErr"]; ce != nil && in.branch(ce, "close error") {
				return in.newError(CStr("close: error"), nil)
			}
			return Iface{}
		case "SetReadDeadline", "SetDeadline":
			in.emit("setReadDeadline", nm)
			if de := o.F["deadlineErr"]; de != nil && in.branch(de, "deadline error") {
				return in.newError(CStr("set deadline: error"), nil)
			}
			if timeIsZero(args[0]) {
				// the zero Time clears the deadline
				delete(o.F, "deadline")
				delete(o.F, "deadlineStale")
				if name == "SetDeadline" {
					delete(o.F, "wdeadline")
				}
				return Iface{}
			}
			o.F["deadline"] = true
			delete(o.F, "deadlineStale")
			if st, ok := args[0].(Struct); ok && len(st) >= 2 {
				if e, ok := st[1].(Int); ok && e == 2 && in.deadlineState(args[0]) == "expired" {
					// a deadline computed from an old clock reading: already in the past when
					// it is set, so every read fails at once (even with data waiting)
					o.F["deadlineStale"] = true
				}
			}
			if name == "SetDeadline" {
				o.F["wdeadline"] = in.deadlineState(args[0])
			}
			return Iface{}
		case "SetWriteDeadline":
			in.emit("setWriteDeadline", nm)
			if de := o.F["deadlineErr"]; de != nil && in.branch(de, "deadline error") {
				return in.newError(CStr("set deadline: error"), nil)
			}
			if timeIsZero(args[0]) {
				delete(o.F, "wdeadline")
				return Iface{}
			}
			o.F["wdeadline"] = in.deadlineState(args[0])
			delete(o.F, "wdeadlinePassed") // a new deadline: whether time runs past it is a new question
			return Iface{}
		case "RemoteAddr", "LocalAddr":
			return in.ifaceOf(in.newObj("addr"))
		case "Read":
			in.unsupported("raw Read on a connection stub (only whole frames through ber.ReadPacket are modelled)")
		}
	case "addr":
		switch name {
		case "String":
			return CStr("127.0.0.1:0")
		case "Network":
			return CStr("tcp")
		}
	case "listener":
		inner := o
		if i, ok := o.F["inner"].(*Obj); ok {
			inner = i
		}
		switch name {
		case "Addr":
			return in.ifaceOf(in.newObj("addr"))
		case "Close":
			in.emit("listener.close", inner.String())
			if inner.b {
				return in.newError(CStr("close tcp: use of closed network connection"), nil)
			}
			inner.b = true
			if ce := in.env.F["listenerCloseErr"]; ce != nil && in.branch(ce, "listener close error") {
				return in.newError(CStr("close tcp: some other error"), nil)
			}
			return Iface{}
		case "Accept":
			calledDuring := false
			for {
				if inner.b && calledDuring && in.env.n < len(in.env.accepts) && in.env.accepts[in.env.n].kind == "conn" {
					// the listener was closed while this Accept call was in progress: the kernel may
					// have completed the connection just before (Accept returns it) or not
					if r := in.env.F["acceptRace"]; r != nil && in.branch(r, "connection accepted just before the listener was closed") {
						it := in.env.accepts[in.env.n]
						in.env.n++
						c := it.err
						in.emit("accept", in.connName(c), "late")
						if o != inner {
							cell := in.newTLSConn(c, o.F["cfg"])
							return Tuple{Iface{T: types.NewPointer(in.namedType("crypto/tls", "Conn")), V: cell}, Iface{}}
						}
						return Tuple{c, Iface{}}
					}
				}
				if inner.b {
					in.emit("accept.closed")
					return Tuple{Iface{}, in.newError(CStr("accept tcp: use of closed network connection"), nil)}
				}
				if in.env.n >= len(in.env.accepts) {
					in.emit("accept.begin")
					in.block("accept", func() bool { return inner.b || in.env.n < len(in.env.accepts) })
					continue
				}
				acc := in.env.accepts
				it := acc[in.env.n]
				in.env.n++
				switch it.kind {
				case "conn":
					c := it.err // the net.Conn interface value
					in.emit("accept", in.connName(c))
					if o != inner {
						// TLS listener: wrap
						cell := in.newTLSConn(c, o.F["cfg"])
						return Tuple{Iface{T: types.NewPointer(in.namedType("crypto/tls", "Conn")), V: cell}, Iface{}}
					}
					return Tuple{c, Iface{}}
				case "error":
					in.emit("accept.err")
					return Tuple{Iface{}, it.err}
				case "call":
					calledDuring = true
					in.call(fr, it.fn, nil, nil, false)
				}
			}
		}
	case "capture":
		if name == "Write" {
			s, _ := in.sliceToSym(fr, args[0])
			o.str = concatStr(o.str, s)
			return Tuple{s.LenValue(in.tt), Iface{}}
		}
	case "rtype":
		if name == "Kind" {
			return Int(reflectKind(o.F["v"]))
		}
	}
	in.unsupported("method %s on %s stub", name, o.Kind)
	return nil
}

// timeIsZero: the argument is the zero time.Time (wall = 0, ext = 0).
func timeIsZero(v Value) bool {
	st, ok := v.(Struct)
	if !ok || len(st) < 2 {
		return false
	}
	a, ok1 := st[0].(Int)
	b, ok2 := st[1].(Int)
	return ok1 && ok2 && a == 0 && b == 0
}

// bufSize: the capacity of a modelled bufio.Writer (default 4096).
func bufSize(o *Obj) int {
	if o != nil && o.n > 0 {
		return o.n
	}
	return 4096
}

// simpleFilterText: go-ldap's rendering of a present filter or of an
// attribute-value assertion whose node shape is concrete.
func (in *Interp) simpleFilterText(fr *frame, p *Value) (Str, bool) {
	if _, sym := in.symNode[p]; sym {
		return Str{}, false
	}
	st := in.P.Ber.Type("Packet").Type().Underlying().(*types.Struct)
	s, ok := (*p).(Struct)
	if !ok {
		return Str{}, false
	}
	id, ok := s[structFieldIndex(st, "Identifier")].(Struct)
	if !ok || len(id) < 3 {
		return Str{}, false
	}
	ints := make([]uint64, 3)
	for i := 0; i < 3; i++ {
		v, ok := id[i].(Int)
		if !ok {
			return Str{}, false
		}
		ints[i] = uint64(v)
	}
	// Identifier{ClassType, TagType, Tag}
	tag := ints[2]
	data := func(q *Value) (Str, bool) {
		qs, ok := (*q).(Struct)
		if !ok {
			return Str{}, false
		}
		dp, _ := qs[structFieldIndex(st, "Data")].(*Value)
		if dp == nil {
			return Str{}, false
		}
		o := in.side[dp]
		if o == nil {
			return Str{}, true
		}
		return o.str, true
	}
	kids, _ := s[structFieldIndex(st, "Children")].(Slice)
	switch tag {
	case 7: // present
		d, ok := data(p)
		if !ok {
			return Str{}, false
		}
		return concatStr(concatStr(CStr("("), d), CStr("=*)")), true
	case 3, 5, 6, 8:
		if kids.symLen != nil || kids.arr == nil || kids.n != 2 {
			return Str{}, false
		}
		a, ok1 := (*kids.arr)[kids.off].(*Value)
		v, ok2 := (*kids.arr)[kids.off+1].(*Value)
		if !ok1 || !ok2 || a == nil || v == nil {
			return Str{}, false
		}
		if _, sym := in.symNode[a]; sym {
			return Str{}, false
		}
		if _, sym := in.symNode[v]; sym {
			return Str{}, false
		}
		ad, ok1 := data(a)
		vd, ok2 := data(v)
		if !ok1 || !ok2 {
			return Str{}, false
		}
		n, ok := vd.ConcreteLen()
		if !ok || n > 8 {
			return Str{}, false
		}
		opText := map[uint64]string{3: "=", 5: ">=", 6: "<=", 8: "~="}[tag]
		out := concatStr(concatStr(CStr("("), ad), CStr(opText))
		tt := in.tt
		hexDigit := func(nib *Term) *Term {
			// nib: BV8 value 0..15
			return tt.Ite(tt.BVCmp("bvult", nib, tt.BVConst(10, 8)), tt.BVOp("bvadd", nib, tt.BVConst('0', 8)), tt.BVOp("bvadd", nib, tt.BVConst('a'-10, 8)))
		}
		u8 := types.Typ[types.Uint8]
		for i := 0; i < n; i++ {
			b := in.strByte(vd, i)
			if c, ok := b.(Int); ok {
				ch := byte(c)
				if ch > 0x7f || ch == '(' || ch == ')' || ch == '\\' || ch == '*' || ch == 0 {
					out = concatStr(out, CStr(fmt.Sprintf("\\%02x", ch)))
				} else {
					out = concatStr(out, CStr(string([]byte{ch})))
				}
				continue
			}
			bt := in.toTerm(b, u8)
			must := tt.Or(tt.BVCmp("bvugt", bt, tt.BVConst(0x7f, 8)), tt.Eq(bt, tt.BVConst('(', 8)), tt.Eq(bt, tt.BVConst(')', 8)),
				tt.Eq(bt, tt.BVConst('\\', 8)), tt.Eq(bt, tt.BVConst('*', 8)), tt.Eq(bt, tt.BVConst(0, 8)))
			if in.branch(boolVal(must), "filter byte needs escaping") {
				hi := hexDigit(tt.BVOp("bvlshr", bt, tt.BVConst(4, 8)))
				lo := hexDigit(tt.BVOp("bvand", bt, tt.BVConst(15, 8)))
				out = concatStr(out, CStr("\\"))
				out = concatStr(out, strFromValues([]Value{in.fromTerm(hi, u8), in.fromTerm(lo, u8)}))
			} else {
				out = concatStr(out, strFromValues([]Value{b}))
			}
		}
		return concatStr(out, CStr(")")), true
	}
	return Str{}, false
}

// deadlineState: "expired" for an instant that is not later than now (the model's
// time.Now()), "armed" for one in the future (time.Now().Add(d), d > 0).
func (in *Interp) deadlineState(t Value) string {
	st, ok := t.(Struct)
	if ok && len(st) >= 2 {
		if e, ok := st[1].(Int); ok && e == 2 {
			if w, ok := st[0].(Int); ok && int(w) < in.clockEpoch {
				return "expired" // now+d of a clock reading taken a long time ago
			}
			return "armed"
		}
	}
	return "expired"
}
