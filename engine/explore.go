package main

// Path exploration by deterministic re-execution (DESIGN §2.3).

import (
	"encoding/base64"
	"fmt"
	"os"
	"runtime/debug"
	"sort"
	"strings"
	"sync"
	"time"

	"golang.org/x/tools/go/ssa"
)

type HarnessCfg struct {
	Name          string
	Pkg           string // "gldap" or "testdirectory"
	MaxSteps      int
	ConcretizeMax int
	DecodeDepth   int
	DecodeWidths  string
	ExtraPkgs     map[string]bool
	MaxPaths      int
	WantModels    bool
	SolverTimeout int
	Workers       int
	PanicIsViolation bool
	CrashIsViolation bool
	Solver        SolverKind
	Seed          int64
	SampleMaxLen  uint64 // longest input string materialised for cross-check samples
	CrossSolver   bool   // re-discharge every obligation on z3 5.1.0 (thorough tier)
	OpaquePkgs    []string
}

func defaultCfg(name string) *HarnessCfg {
	return &HarnessCfg{Name: name, Pkg: "gldap", MaxSteps: 3000000, ConcretizeMax: 8, DecodeDepth: 3,
		DecodeWidths: "def=3", ExtraPkgs: map[string]bool{}, MaxPaths: 200000, SolverTimeout: 20000,
		Workers: 14, PanicIsViolation: true, CrashIsViolation: true, SampleMaxLen: 300}
}

type PathResult struct {
	Decisions  []int
	Outcome    string
	Detail     string
	Events     []Event
	Oblig      []Obligation
	Reached    []string
	Choices    map[string][2]int
	Violations []Violation
	Model      map[string]interface{}
	HasModel   bool
	Forks      []ForkRec
	Steps      int
	Unknown    int
	Cuts       []string
	Funcs      map[string]int
	Stubs      map[string]int
	PanicSite  string
	PanicKind  string
	PanicMsg   string
	Symbolic   bool
}

type Explorer struct {
	P       *Program
	cfg     *HarnessCfg
	fn      *ssa.Function
	mu      sync.Mutex
	queue   [][]int
	active  int
	results []*PathResult
	cond    *sync.Cond
	stopped bool
	modelled int
}

type ExploreResult struct {
	Cfg      *HarnessCfg
	Paths    []*PathResult
	WallS    float64
	Truncated bool
}

func Explore(P *Program, cfg *HarnessCfg) (*ExploreResult, error) {
	pkg := P.Gldap
	if cfg.Pkg == "testdirectory" {
		pkg = P.TestDir
	}
	fn := pkg.Func(cfg.Name)
	if fn == nil {
		return nil, fmt.Errorf("harness %s not found in %s", cfg.Name, pkg.Pkg.Path())
	}
	ex := &Explorer{P: P, cfg: cfg, fn: fn}
	ex.cond = sync.NewCond(&ex.mu)
	ex.queue = [][]int{{}}
	t0 := time.Now()
	var wg sync.WaitGroup
	nw := cfg.Workers
	if nw < 1 {
		nw = 1
	}
	errs := make(chan error, nw)
	for w := 0; w < nw; w++ {
		wg.Add(1)
		go func() {
			defer wg.Done()
			sol, err := NewSolver(cfg.Solver, cfg.SolverTimeout)
			if err != nil {
				errs <- err
				return
			}
			if cfg.CrossSolver {
				if m, err := NewSolver(Z3New, cfg.SolverTimeout); err == nil {
					sol.mirror = m
				}
			}
			defer func() { sol.Close() }()
			for {
				ex.mu.Lock()
				for len(ex.queue) == 0 && ex.active > 0 && !ex.stopped {
					ex.cond.Wait()
				}
				if len(ex.queue) == 0 || ex.stopped {
					ex.mu.Unlock()
					ex.cond.Broadcast()
					return
				}
				prefix := ex.queue[len(ex.queue)-1]
				ex.queue = ex.queue[:len(ex.queue)-1]
				ex.active++
				ex.mu.Unlock()

				res := ex.runPath(sol, prefix)
				if sol.dead || (sol.mirror != nil && sol.mirror.dead) {
					// restart the solver(s)
					sol.Close()
					sol, _ = NewSolver(cfg.Solver, cfg.SolverTimeout)
					if cfg.CrossSolver {
						if m, err := NewSolver(Z3New, cfg.SolverTimeout); err == nil {
							sol.mirror = m
						}
					}
				}

				ex.mu.Lock()
				ex.active--
				ex.results = append(ex.results, res)
				for _, f := range res.Forks {
					for _, a := range f.alts {
						np := append(append([]int{}, res.Decisions[:f.depth]...), a)
						ex.queue = append(ex.queue, np)
					}
				}
				if len(ex.results) >= cfg.MaxPaths {
					ex.stopped = true
				}
				ex.mu.Unlock()
				ex.cond.Broadcast()
			}
		}()
	}
	if os.Getenv("GOSYM_PROGRESS") != "" {
		go func() {
			for {
				time.Sleep(5 * time.Second)
				ex.mu.Lock()
				fmt.Fprintf(os.Stderr, "progress: done=%d queue=%d active=%d queries=%d hung=%d\n", len(ex.results), len(ex.queue), ex.active, gQueries, gSolverHung)
				ex.mu.Unlock()
			}
		}()
	}
	wg.Wait()
	select {
	case e := <-errs:
		return nil, e
	default:
	}
	sort.Slice(ex.results, func(i, j int) bool {
		a, b := ex.results[i].Decisions, ex.results[j].Decisions
		for k := 0; k < len(a) && k < len(b); k++ {
			if a[k] != b[k] {
				return a[k] < b[k]
			}
		}
		return len(a) < len(b)
	})
	return &ExploreResult{Cfg: cfg, Paths: ex.results, WallS: time.Since(t0).Seconds(), Truncated: ex.stopped}, nil
}

func (ex *Explorer) newInterp(sol *Solver) *Interp {
	in := &Interp{
		P: ex.P, tt: NewTermTable(), sol: sol, exp: ex, cfg: ex.cfg,
		globals: map[*ssa.Global]*Value{}, side: map[*Value]*Obj{}, symNode: map[*Value]*SymNode{},
		stubTypes: map[string]types_Type{}, bytesMemo: map[string]*Value{}, extGlobals: map[string]Value{},
		summaries: map[string]bool{}, roCells: map[*Value]bool{}, usedStubs: map[string]int{},
		fmtAsserted: map[string]bool{}, drained: map[*[]Value][]Value{}, filterMemo: map[string]Value{}, filterNode: map[int]*Value{},
	}
	in.env = in.newObj("env")
	return in
}

func (ex *Explorer) runPath(sol *Solver, prefix []int) (res *PathResult) {
	in := ex.newInterp(sol)
	ps := &PathState{decisions: prefix, funcs: map[string]int{}}
	in.path = ps
	sol.Send("(push)")
	res = &PathResult{}
	defer func() {
		r := recover()
		switch x := r.(type) {
		case nil:
			ps.outcome = "return"
			if in.mainBlocked != "" {
				ps.outcome, ps.detail = "blocked", in.mainBlocked
			}
		case pathEnd:
			ps.outcome = x.reason
			ps.detail = x.detail
		case *targetPanic:
			ps.outcome = "panic"
			res.PanicSite = x.site
			res.PanicKind = x.kind
			res.PanicMsg = in.panicMessage(x)
			ps.detail = x.kind + " at " + x.site + ": " + res.PanicMsg
			if ex.cfg.PanicIsViolation {
				in.violateWithModel("panic:"+panicKey(x), "no-panic", ps.detail)
			}
		default:
			ps.outcome = "engine-error"
			ps.detail = fmt.Sprintf("%v\n%s", r, debug.Stack())
			if os.Getenv("GOSYM_DEBUG") != "" {
				fmt.Fprintln(os.Stderr, "ENGINE ERROR:", ps.detail)
			}
		}
		if ps.outcome == "return" || ps.outcome == "done" {
			for _, t := range in.threads {
				if t.state == tsBlocked {
					in.emitT(t.id, "blocked-at-end", t.name, t.reason)
				}
			}
		}
		if ex.cfg.CrashIsViolation && (ps.outcome == "return" || ps.outcome == "panic" || ps.outcome == "done") {
			for _, c := range in.crashes {
				in.violateWithModel("crash:"+panicKey(c), "no-goroutine-crash", "unrecovered panic on a spawned goroutine: "+c.kind+" at "+c.site+": "+in.panicMessage(c))
			}
		}
		if ex.cfg.WantModels && (ps.outcome == "return" || ps.outcome == "panic" || ps.outcome == "done") && !res.HasModel && ex.sampleModel(ps.taken) {
			if sol.CheckSat() == Sat {
				res.Model, res.HasModel = in.confirmModel(ex.cfg.SampleMaxLen)
			}
		}
		sol.Send("(pop)")
		res.Decisions = ps.taken
		res.Outcome = ps.outcome
		res.Detail = ps.detail
		res.Events = ps.events
		res.Oblig = ps.oblig
		res.Reached = ps.reached
		res.Choices = ps.choices
		res.Violations = ps.violations
		res.Forks = ps.forks
		res.Steps = in.steps
		res.Unknown = ps.unknownKept
		res.Cuts = ps.cuts
		res.Funcs = ps.funcs
		res.Stubs = in.usedStubs
		res.Symbolic = len(ps.taken) > 0 || len(ps.inputs) > 0
	}()
	in.runInits()
	in.steps = 0
	ps.funcs = map[string]int{}
	// the harness body is thread 0; goroutines it starts are further threads
	in.yield = make(chan yieldMsg)
	main := in.newThread("main", nil, nil)
	in.runq = []int{0}
	in.startThread(main, func() { in.callFunction(nil, ex.fn, nil, nil) })
	in.schedule()
	if in.mainBlocked != "" {
		ps.outcome, ps.detail = "blocked", in.mainBlocked
	}
	return res
}

// sampleModel decides (deterministically in seed and path) whether a model is
// computed for a completed path: the first few paths always, then ~4%.
func (ex *Explorer) sampleModel(dec []int) bool {
	ex.mu.Lock()
	n := ex.modelled
	ex.mu.Unlock()
	h := uint64(1469598103934665603) ^ uint64(ex.cfg.Seed)*1099511628211
	for _, d := range dec {
		h = (h ^ uint64(d+1)) * 1099511628211
	}
	take := n < 12 || h%25 == 0
	if take {
		ex.mu.Lock()
		ex.modelled++
		ex.mu.Unlock()
	}
	return take
}

func panicKey(tp *targetPanic) string {
	// function + kind (line numbers are only a hint and excluded from the key)
	site := tp.site
	if i := strings.Index(site, "@"); i >= 0 {
		site = site[:i]
	}
	k := site + ":" + tp.kind
	if tp.src != "" {
		// the source text of the faulting line identifies the site without line numbers
		h := uint32(2166136261)
		for i := 0; i < len(tp.src); i++ {
			h = (h ^ uint32(tp.src[i])) * 16777619
		}
		k += fmt.Sprintf(":%08x", h)
	}
	return k
}

func (in *Interp) panicMessage(tp *targetPanic) string {
	switch v := tp.v.(type) {
	case Str:
		return v.String()
	case Iface:
		if o := errObj(v); o != nil {
			return o.str.String()
		}
		if s, ok := v.V.(Str); ok {
			return s.String()
		}
		return fmt.Sprintf("%v", v.T)
	}
	return fmt.Sprintf("%T", tp.v)
}

func (in *Interp) runInits() {
	in.initDone = false
	for _, pkg := range []*ssa.Package{in.P.Ber, in.P.Gldap, in.P.TestDir} {
		if pkg == nil {
			continue
		}
		if pkg == in.P.TestDir && in.cfg.Pkg != "testdirectory" {
			continue
		}
		if f := pkg.Func("init"); f != nil {
			in.callFunction(nil, f, nil, nil)
		}
	}
	in.initDone = true
}

// confirmModel produces a model of the current context in which every input
// string's sequence length equals its BV length variable.  The tie is imposed
// here (after fixing the lengths to the values of a first model) instead of
// during exploration, where bv2nat makes all three solvers time out.
func (in *Interp) confirmModel(maxLen uint64) (map[string]interface{}, bool) {
	var lens, allLens []InputVar
	for _, iv := range in.path.inputs {
		if iv.Kind == "str" && iv.T.Declared() {
			// only strings whose content the path actually constrained need the tie
			in.tt.Ref(iv.L)
			lens = append(lens, iv)
		}
		if iv.Kind == "str" && (iv.T.Declared() || iv.L.Declared()) {
			allLens = append(allLens, iv)
		}
	}
	if len(allLens) == 0 {
		return in.extractModel()
	}
	in.flush()
	// prefer short strings: huge lengths make the solver materialise huge sequences
	for _, bound := range []uint64{8, 300, 5000, 70000} {
		if bound > maxLen {
			break
		}
		in.sol.Send("(push)")
		for _, iv := range allLens {
			in.sol.Send(fmt.Sprintf("(assert (bvule %s %s))", in.tt.Ref(iv.L), in.tt.BVConst(bound, 64).lit()))
		}
		if in.sol.CheckSat() != Sat {
			in.sol.Send("(pop)")
			continue
		}
		if len(lens) == 0 {
			m, ok := in.extractModel()
			in.sol.Send("(pop)")
			return m, ok
		}
		for attempt := 0; attempt < 3; attempt++ {
			var exprs []string
			for _, iv := range lens {
				exprs = append(exprs, in.tt.Ref(iv.L))
			}
			vals, ok := in.sol.GetValue(exprs)
			if !ok {
				break
			}
			in.sol.Send("(push)")
			var block []string
			bad := false
			for i, iv := range lens {
				v, ok := parseBVValue(vals[i])
				if !ok {
					bad = true
					break
				}
				in.sol.Send(fmt.Sprintf("(assert (= %s %s))", in.tt.Ref(iv.L), in.tt.BVConst(v, 64).lit()))
				in.sol.Send(fmt.Sprintf("(assert (= (seq.len %s) %d))", in.tt.Ref(iv.T), v))
				block = append(block, fmt.Sprintf("(= %s %s)", in.tt.Ref(iv.L), in.tt.BVConst(v, 64).lit()))
			}
			if !bad && in.sol.CheckSat() == Sat {
				m, ok := in.extractModel()
				in.sol.Send("(pop)", "(pop)")
				return m, ok
			}
			in.sol.Send("(pop)")
			if bad {
				break
			}
			in.sol.Send("(assert (not (and " + strings.Join(block, " ") + ")))")
			if in.sol.CheckSat() != Sat {
				break
			}
		}
		in.sol.Send("(pop)")
	}
	return nil, false
}

// extractModel reads the values of all input variables from the current model.
func (in *Interp) extractModel() (map[string]interface{}, bool) {
	m := map[string]interface{}{}
	var exprs []string
	var vars []*Term
	idx := map[*Term]int{}
	want := func(t *Term) {
		if t != nil && t.Declared() {
			if _, ok := idx[t]; !ok {
				idx[t] = len(vars)
				vars = append(vars, t)
				exprs = append(exprs, in.tt.Ref(t))
			}
		}
	}
	for _, iv := range in.path.inputs {
		want(iv.T)
		want(iv.L)
		if iv.Kind == "str" {
			for _, b := range in.tt.byteVars[iv.T] {
				want(b)
			}
		}
	}
	in.flush()
	vals, ok := in.sol.GetValue(exprs)
	if !ok {
		return nil, false
	}
	for _, iv := range in.path.inputs {
		if !iv.T.Declared() {
			// never referenced by the path condition: any value will do
			switch iv.Kind {
			case "bool":
				m[iv.Name] = false
			case "str":
				n := uint64(0)
				if iv.L != nil && iv.L.Declared() {
					n, _ = parseBVValue(vals[idx[iv.L]])
				}
				if n > 70000 {
					return nil, false
				}
				buf := make([]byte, n)
				for i, b := range in.tt.byteVars[iv.T] {
					if b.Declared() && uint64(i) < n {
						x, _ := parseBVValue(vals[idx[b]])
						buf[i] = byte(x)
					}
				}
				m[iv.Name] = "b64:" + base64.StdEncoding.EncodeToString(buf)
			default:
				m[iv.Name] = "0"
			}
			continue
		}
		v := vals[idx[iv.T]]
		switch iv.Kind {
		case "bool":
			m[iv.Name] = strings.TrimSpace(v) == "true"
		case "str":
			b, ok := parseSeqValue(v)
			if !ok {
				return nil, false
			}
			m[iv.Name] = "b64:" + base64.StdEncoding.EncodeToString(b)
		default:
			x, ok := parseBVValue(v)
			if !ok {
				return nil, false
			}
			m[iv.Name] = fmt.Sprintf("%d", x)
		}
	}
	// the content of a constructed node is the concatenation of its children's
	// encodings; the model treats it as free bytes.  A path that read such
	// content cannot be reproduced from the tree alone: flag it.
	for _, n := range in.symNode {
		used := n.data.p[0].t.Declared() || len(in.tt.byteVars[n.data.p[0].t]) > 0
		if used && m[n.name+".type"] == "32" && m[n.name+".n"] != "0" {
			m["__incomparable"] = "content of constructed node " + n.name + " was read"
		}
	}
	// the filter node handed to ldap.DecompileFilter (a stub here): natively it
	// must decompile (or not) as the path assumed
	for seq, p := range in.filterNode {
		n := in.symNode[p]
		if n == nil {
			continue
		}
		if m[fmt.Sprintf("filter%d.ok", seq)] == true {
			m[n.name+".class"], m[n.name+".type"], m[n.name+".tag"], m[n.name+".n"] = "128", "0", "7", "0"
			m[n.name+".data"] = "b64:" + base64.StdEncoding.EncodeToString([]byte("objectClass"))
		}
	}
	// content that the code re-decoded with ber.DecodePacketErr: natively the
	// decoded tree must come from those very bytes, so the content is replaced
	// by the encoding of the modelled tree
	for _, d := range in.decoded {
		if len(d.src.p) == 1 && d.src.p[0].k == pkAtom && d.src.p[0].t.op == "var" {
			if okv, has := m[d.node.root+".ok"]; has && okv == true {
				m[d.src.p[0].t.name] = "enc:" + d.node.root
			}
		}
	}
	return m, true
}

func parseSeqValue(s string) ([]byte, bool) {
	sx, err := parseSexp(s)
	if err != nil {
		return nil, false
	}
	var out []byte
	var walk func(n *sexp) bool
	walk = func(n *sexp) bool {
		if !n.isL {
			if strings.HasPrefix(n.atom, "\"") {
				// string literal (should not occur for Seq BV8)
				out = append(out, []byte(strings.Trim(n.atom, "\""))...)
				return true
			}
			return n.atom == "seq.empty"
		}
		if len(n.list) == 0 {
			return false
		}
		head := n.list[0]
		if !head.isL {
			switch head.atom {
			case "as":
				return true // (as seq.empty ...)
			case "seq.unit":
				v, ok := parseBVValue(n.list[1].String())
				if !ok {
					return false
				}
				out = append(out, byte(v))
				return true
			case "seq.++":
				for _, c := range n.list[1:] {
					if !walk(c) {
						return false
					}
				}
				return true
			case "_":
				// (_ bvN 8) handled by seq.unit; (_ seq.empty ..)
				return true
			}
		}
		return false
	}
	if !walk(sx) {
		return nil, false
	}
	return out, true
}
