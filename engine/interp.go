package main

// Symbolic interpreter for go/ssa.  One Interp executes ONE path: it follows
// a prefix of recorded decisions and asks the solver at the first undecided
// symbolic branch (see explore.go).

import (
	"fmt"
	"go/constant"
	"go/token"
	"go/types"
	"os"
	"strings"
	"sync"

	"golang.org/x/tools/go/ssa"
)

// targetPanic is a panic of the interpreted program.
type targetPanic struct {
	v    Value
	site string // function + position where raised
	kind string // nil-deref, index, type-assert, explicit, ...
	src  string // trimmed source line text (part of the finding key)
}

// pathEnd aborts the current path (not a panic of the target program).
type pathEnd struct {
	reason string // "assume", "unsupported", "blocked", "budget", "done"
	detail string
}

type deferred struct {
	fn   Value
	args []Value
	site ssa.Instruction
}

type frame struct {
	in        *Interp
	fn        *ssa.Function
	caller    *frame
	env       map[ssa.Value]Value
	block     *ssa.BasicBlock
	prev      *ssa.BasicBlock
	defers    []deferred
	result    Value
	panicking bool
	panicVal  *targetPanic
	recovered bool
	curInstr  ssa.Instruction
}

type goroutine struct {
	fn   Value
	args []Value
	name string
	done bool
}

type Event struct {
	Kind string
	Args []string
	Tid  int
}

type Obligation struct {
	Label   string
	Verdict string // "concrete-true", "unsat", "sat", "unknown", "concrete-false"
	Site    string
}

type Interp struct {
	P    *Program
	tt   *TermTable
	sol  *Solver
	exp  *Explorer
	cfg  *HarnessCfg
	path *PathState

	globals map[*ssa.Global]*Value
	side    map[*Value]*Obj // side objects for sync.Mutex / bytes.Buffer / WaitGroup cells
	symNode map[*Value]*SymNode
	objSeq  int
	steps   int
	depth   int

	goQueue    []*goroutine
	lateSched  bool
	inGo       int
	stubTypes  map[string]types.Type
	bytesMemo  map[string]*Value // Str key of (*Packet).Bytes() result -> wire snapshot of the packet
	extGlobals map[string]Value
	summaries  map[string]bool
	initDone   bool

	schedFork     bool
	schedLevel    int
	schedFilter   string
	preemptBudget int
	tracked       map[*Value]string
	threads []*thread
	cur     *thread
	yield   chan yieldMsg
	runq    []int

	drained     map[*[]Value][]Value
	roCells     map[*Value]bool
	crashes     []*targetPanic
	usedStubs   map[string]int
	fmtAsserted map[string]bool
	filterMemo  map[string]Value
	filterNode  map[int]*Value
	filterSeq   int
	peekSeq     int
	pemSeq      int
	issuedLeaves, issuedSigners int
	clockEpoch int
	inCond      bool
	chanSeq     int
	loopInit    map[string]Value // "<function>:<variable>" -> value the loop variable starts from
	mainBlocked string // set by the scheduler when the harness body can never continue
	appended    map[*Value]bool // Data buffers of packets that have been appended to a parent
	staleChild  string          // set when such a buffer is written afterwards
	decSeq      int
	decoded     []decodedRec
	env         *Obj
	roots       []*SymNode
	conns       []*Obj
	permute     string
}

type types_Type = types.Type

func (in *Interp) permuteKeys(fr *frame, keys []Value) []Value {
	if in.permute == "" || len(keys) < 2 {
		return keys
	}
	// symbolic permutation: choose the order by forking (n! alternatives for small n)
	out := []Value{}
	rest := append([]Value{}, keys...)
	for len(rest) > 1 {
		conds := make([]*Term, len(rest))
		sel := in.inputVar(in.permute+"."+itoa(len(in.path.inputs)), "bv64", BV(64))
		for i := range rest {
			conds[i] = in.tt.Eq(sel, in.tt.BVConst(uint64(i), 64))
		}
		i := in.fork(conds, "map iteration order")
		out = append(out, rest[i])
		rest = append(rest[:i], rest[i+1:]...)
	}
	return append(out, rest...)
}

func itoa(i int) string { return fmt.Sprintf("%d", i) }


type PathState struct {
	decisions []int // prefix to follow
	pos       int
	taken     []int    // decisions actually taken (prefix + new)
	forks     []ForkRec // newly discovered alternatives
	pc        []*Term
	events    []Event
	oblig     []Obligation
	reached   []string
	choices   map[string][2]int // vLen name -> {value, max}
	outcome   string
	detail    string
	violations []Violation
	inputs    []InputVar
	unknownKept int
	cuts      []string
	funcs     map[string]int // function -> instructions executed
}

type ForkRec struct {
	depth int
	alts  []int // other feasible alternatives at this depth
}

type InputVar struct {
	Name string
	Kind string // "bv64","bv32","bv8","bool","str","len"
	T    *Term
	L    *Term // for str: BV64 length var
}

type Violation struct {
	Key     string
	Label   string
	Detail  string
	Model   map[string]interface{}
	HasModel bool
}

func (in *Interp) newObj(kind string) *Obj {
	in.objSeq++
	return &Obj{Kind: kind, id: in.objSeq, F: map[string]Value{}}
}

func (in *Interp) stubType(kind string) types.Type {
	if t, ok := in.stubTypes[kind]; ok {
		return t
	}
	tn := types.NewTypeName(token.NoPos, nil, "stub."+kind, nil)
	named := types.NewNamed(tn, types.NewStruct(nil, nil), nil)
	t := types.NewPointer(named)
	in.stubTypes[kind] = t
	return t
}

func (in *Interp) ifaceOf(o *Obj) Iface { return Iface{T: in.stubType(o.Kind), V: o} }

func (in *Interp) end(reason, detail string) {
	panic(pathEnd{reason: reason, detail: detail})
}

func (in *Interp) unsupported(format string, a ...interface{}) {
	in.end("unsupported", fmt.Sprintf(format, a...))
}

func (fr *frame) where() string {
	pos := token.NoPos
	if fr.curInstr != nil {
		pos = fr.curInstr.Pos()
	}
	if !pos.IsValid() {
		// look backwards for a positioned instruction
		if fr.curInstr != nil && fr.curInstr.Block() != nil {
			for _, i := range fr.curInstr.Block().Instrs {
				if i.Pos().IsValid() {
					pos = i.Pos()
				}
				if i == fr.curInstr {
					break
				}
			}
		}
	}
	p := fr.in.P.Prog.Fset.Position(pos)
	file := p.Filename
	if i := strings.LastIndex(file, "/"); i >= 0 {
		file = file[i+1:]
	}
	return fmt.Sprintf("%s@%s:%d", fr.fn.String(), file, p.Line)
}

func (fr *frame) tpanic(kind string, v Value) {
	panic(&targetPanic{v: v, site: fr.where(), kind: kind, src: fr.srcLine()})
}

var srcCache = map[string][]string{}
var srcMu sync.Mutex

func (fr *frame) srcLine() string {
	pos := token.NoPos
	if fr.curInstr != nil {
		pos = fr.curInstr.Pos()
		if !pos.IsValid() && fr.curInstr.Block() != nil {
			for _, i := range fr.curInstr.Block().Instrs {
				if i.Pos().IsValid() {
					pos = i.Pos()
				}
				if i == fr.curInstr {
					break
				}
			}
		}
	}
	if !pos.IsValid() {
		return ""
	}
	p := fr.in.P.Prog.Fset.Position(pos)
	srcMu.Lock()
	defer srcMu.Unlock()
	lines, ok := srcCache[p.Filename]
	if !ok {
		file := p.Filename
		if real, ok := fr.in.P.Overlay[file]; ok {
			file = real
		}
		b, err := os.ReadFile(file)
		if err == nil {
			lines = strings.Split(string(b), "\n")
		}
		srcCache[p.Filename] = lines
	}
	if p.Line >= 1 && p.Line <= len(lines) {
		return strings.Join(strings.Fields(lines[p.Line-1]), " ")
	}
	return ""
}

func (fr *frame) get(v ssa.Value) Value {
	switch x := v.(type) {
	case *ssa.Const:
		return fr.in.constValue(x)
	case *ssa.Function:
		return x
	case *ssa.Builtin:
		return x
	case *ssa.Global:
		return fr.in.global(x)
	}
	if r, ok := fr.env[v]; ok {
		return r
	}
	panic(fmt.Sprintf("get: no value for %T %s in %s", v, v.Name(), fr.fn))
}

func (in *Interp) global(g *ssa.Global) *Value {
	if p, ok := in.globals[g]; ok {
		return p
	}
	cell := new(Value)
	elem := g.Type().(*types.Pointer).Elem()
	if g.Pkg != nil && !in.P.interpreted(g.Pkg.Pkg) {
		*cell = in.externalGlobal(g, elem)
	} else {
		*cell = in.zero(elem)
	}
	in.globals[g] = cell
	return cell
}

func (in *Interp) constValue(c *ssa.Const) Value {
	t := c.Type()
	if c.Value == nil {
		return in.zero(t)
	}
	switch u := t.Underlying().(type) {
	case *types.Basic:
		switch {
		case u.Info()&types.IsBoolean != 0:
			return constant.BoolVal(c.Value)
		case u.Info()&types.IsString != 0:
			if c.Value.Kind() == constant.String {
				return CStr(constant.StringVal(c.Value))
			}
			return CStr(string(rune(c.Int64())))
		case u.Info()&types.IsInteger != 0:
			w, signed := intInfo(t)
			if signed {
				return normInt(uint64(c.Int64()), w, true)
			}
			return normInt(c.Uint64(), w, false)
		case u.Info()&types.IsFloat != 0:
			return c.Float64()
		case u.Kind() == types.UntypedNil:
			return nil
		}
	case *types.Interface:
		// only constant of interface type with a value: not produced by ssa
	}
	if tp, ok := t.Underlying().(*types.TypeParam); ok {
		_ = tp
	}
	panic(fmt.Sprintf("constValue: unsupported const %v of type %v", c, t))
}

// zero returns the zero value of type t.
func (in *Interp) zero(t types.Type) Value {
	switch u := t.Underlying().(type) {
	case *types.Basic:
		switch {
		case u.Kind() == types.UnsafePointer:
			return (*Value)(nil)
		case u.Info()&types.IsBoolean != 0:
			return false
		case u.Info()&types.IsString != 0:
			return Str{}
		case u.Info()&types.IsInteger != 0:
			return Int(0)
		case u.Info()&types.IsFloat != 0:
			return float64(0)
		case u.Kind() == types.UntypedNil:
			return nil
		}
	case *types.Pointer:
		return (*Value)(nil)
	case *types.Struct:
		s := make(Struct, u.NumFields())
		for i := range s {
			s[i] = in.zero(u.Field(i).Type())
		}
		return s
	case *types.Array:
		a := make(Array, u.Len())
		for i := range a {
			a[i] = in.zero(u.Elem())
		}
		return a
	case *types.Slice:
		return Slice{}
	case *types.Map:
		return (*Map)(nil)
	case *types.Interface:
		return Iface{}
	case *types.Signature:
		return nil
	case *types.Chan:
		return (*Chan)(nil)
	case *types.Tuple:
		tu := make(Tuple, u.Len())
		for i := range tu {
			tu[i] = in.zero(u.At(i).Type())
		}
		return tu
	}
	panic(fmt.Sprintf("zero: unsupported type %v", t))
}

func copyVal(v Value) Value {
	switch x := v.(type) {
	case Struct:
		c := make(Struct, len(x))
		for i, f := range x {
			c[i] = copyVal(f)
		}
		return c
	case Array:
		c := make(Array, len(x))
		for i, f := range x {
			c[i] = copyVal(f)
		}
		return c
	}
	return v
}

func (in *Interp) load(p *Value) Value {
	if in.tracked != nil {
		if name, ok := in.tracked[p]; ok {
			in.emit("rd", name, valRepr(*p))
		}
	}
	v := *p
	if lz, ok := v.(*lazyKid); ok {
		v = lz.materialise(in)
		*p = v
	}
	return copyVal(v)
}

func (in *Interp) store(p *Value, v Value) {
	*p = copyVal(v)
	if in.tracked != nil {
		if name, ok := in.tracked[p]; ok {
			in.emit("wr", name, valRepr(*p))
		}
	}
}

// valRepr is a comparable rendering of a stored value (read-from matching).
func valRepr(v Value) string {
	switch x := v.(type) {
	case nil:
		return "nil"
	case bool, Int, float64:
		return fmt.Sprint(x)
	case *Value:
		return fmt.Sprintf("%p", x)
	case Iface:
		if x.T == nil {
			return "nil"
		}
		return x.T.String() + ":" + valRepr(x.V)
	case *Obj:
		return x.String()
	case Str:
		return x.key()
	case Slice:
		return fmt.Sprintf("slice(%p,%d,%d)", x.arr, x.off, x.n)
	case *Map:
		return fmt.Sprintf("%p", x)
	case *Term:
		return fmt.Sprintf("t%d", x.id)
	case *Closure:
		return fmt.Sprintf("%p", x)
	case *NativeFunc:
		return fmt.Sprintf("%p", x)
	}
	return fmt.Sprintf("%T", v)
}

// trackStruct registers the field cells of the struct at p (nested structs
// included, not followed through pointers) for rd/wr event recording.
func (in *Interp) trackStruct(p *Value, name string, t types.Type) {
	if in.tracked == nil {
		in.tracked = map[*Value]string{}
	}
	var st *types.Struct
	if pt, ok := t.Underlying().(*types.Pointer); ok {
		st, _ = pt.Elem().Underlying().(*types.Struct)
	} else {
		st, _ = t.Underlying().(*types.Struct)
	}
	s, ok := (*p).(Struct)
	if !ok || st == nil {
		in.tracked[p] = name
		return
	}
	for i := range s {
		fn := name + "." + st.Field(i).Name()
		ft := st.Field(i).Type()
		// sync primitives are modelled by their own events
		if strings.HasPrefix(ft.String(), "sync.") {
			continue
		}
		if _, isStruct := ft.Underlying().(*types.Struct); isStruct {
			in.trackStruct(&s[i], fn, ft)
			continue
		}
		in.tracked[&s[i]] = fn
	}
}

// ------------------------------------------------------------------
// decisions

// fork picks one of n alternatives whose conditions are conds[i] (mutually
// exclusive and jointly exhaustive under the path condition).
func (in *Interp) fork(conds []*Term, what string) int {
	ps := in.path
	// constant conditions
	live := []int{}
	for i, c := range conds {
		if !c.IsFalse() {
			live = append(live, i)
		}
	}
	if len(live) == 1 {
		return live[0]
	}
	if len(live) == 0 {
		in.end("assume", "no live alternative")
	}
	if ps.pos < len(ps.decisions) {
		d := ps.decisions[ps.pos]
		ps.pos++
		ps.taken = append(ps.taken, d)
		in.assume(conds[d])
		return d
	}
	// undecided: ask the solver which alternatives are feasible
	var feas []int
	for _, i := range live {
		switch in.checkWith(conds[i]) {
		case Sat:
			feas = append(feas, i)
		case Unknown:
			ps.unknownKept++
			feas = append(feas, i)
		}
	}
	if len(feas) == 0 {
		in.end("assume", "infeasible at "+what)
	}
	d := feas[0]
	if len(feas) > 1 {
		ps.forks = append(ps.forks, ForkRec{depth: len(ps.taken), alts: feas[1:]})
		if forkStat != nil {
			forkMu.Lock()
			forkStat[what] += len(feas) - 1
			forkMu.Unlock()
		}
	}
	ps.taken = append(ps.taken, d)
	ps.pos++
	in.assume(conds[d])
	return d
}

// branch evaluates a possibly symbolic bool.
func (in *Interp) branch(c Value, what string) bool {
	switch x := c.(type) {
	case bool:
		return x
	case *Term:
		if x.IsConst() {
			return x.cval == 1
		}
		return in.fork([]*Term{x, in.tt.Not(x)}, what) == 0
	}
	panic(fmt.Sprintf("branch: bad cond %T", c))
}

func (in *Interp) flush() {
	if p := in.tt.TakePending(); len(p) > 0 {
		in.sol.Send(p...)
	}
}

func (in *Interp) assume(c *Term) {
	if c.IsTrue() {
		return
	}
	in.path.pc = append(in.path.pc, c)
	r := in.tt.Ref(c)
	in.flush()
	in.sol.Send("(assert " + r + ")")
}

// checkWith asks whether pc ∧ c is satisfiable.
func (in *Interp) checkWith(c *Term) Verdict {
	if c.IsTrue() {
		// still need pc feasibility; assume pc feasible (invariant)
		return Sat
	}
	if c.IsFalse() {
		return Unsat
	}
	r := in.tt.Ref(c)
	in.flush()
	in.sol.Send("(push)", "(assert "+r+")")
	v := in.sol.CheckSat()
	in.sol.Send("(pop)")
	return v
}

// ------------------------------------------------------------------
// running functions

func (in *Interp) callFunction(caller *frame, fn *ssa.Function, args []Value, env []Value) Value {
	if fn.Blocks == nil {
		in.unsupported("external function without body: %s", fn.String())
	}
	in.depth++
	if in.depth > 200+20*len(in.threads) { // the counter is shared by all threads: blocked threads keep their frames
		in.end("budget", "call depth")
	}
	defer func() { in.depth-- }()
	fr := &frame{in: in, fn: fn, caller: caller, env: make(map[ssa.Value]Value, 16)}
	for i, p := range fn.Params {
		fr.env[p] = args[i]
	}
	for i, fv := range fn.FreeVars {
		fr.env[fv] = env[i]
	}
	fr.block = fn.Blocks[0]
	fr.run()
	return fr.result
}

func (fr *frame) run() {
	defer func() {
		if fr.block == nil {
			return // normal return
		}
		r := recover()
		if r == nil {
			return
		}
		tp, ok := r.(*targetPanic)
		if !ok {
			panic(r) // pathEnd or engine bug: do not run target defers
		}
		fr.panicking = true
		fr.panicVal = tp
		fr.runDefers()
		if fr.panicking {
			panic(fr.panicVal)
		}
		// recovered: return to caller with named results (Recover block)
		if fr.fn.Recover != nil {
			fr.block = fr.fn.Recover
			fr.prev = nil
			fr.loop()
		} else {
			fr.result = fr.in.zeroResult(fr.fn)
		}
	}()
	fr.loop()
}

func (in *Interp) zeroResult(fn *ssa.Function) Value {
	res := fn.Signature.Results()
	switch res.Len() {
	case 0:
		return nil
	case 1:
		return in.zero(res.At(0).Type())
	}
	return in.zero(res)
}

func (fr *frame) loop() {
	for fr.block != nil {
		blk := fr.block
		jumped := false
		for _, instr := range blk.Instrs {
			fr.curInstr = instr
			fr.in.steps++
			if fr.in.steps > fr.in.cfg.MaxSteps {
				fr.in.end("budget", "step budget exceeded")
			}
			if fr.in.path.funcs != nil {
				fr.in.path.funcs[fr.fn.String()]++
			}
			if fr.visit(instr) {
				jumped = true
				break
			}
		}
		if !jumped {
			panic("block fell through: " + fr.fn.String())
		}
	}
}

func (fr *frame) runDefers() {
	for len(fr.defers) > 0 {
		d := fr.defers[len(fr.defers)-1]
		fr.defers = fr.defers[:len(fr.defers)-1]
		fr.runDefer(d)
	}
}

func (fr *frame) runDefer(d deferred) {
	defer func() {
		r := recover()
		if r == nil {
			return
		}
		tp, ok := r.(*targetPanic)
		if !ok {
			panic(r)
		}
		// a deferred call panicked: replaces the current panic
		fr.panicking = true
		fr.panicVal = tp
	}()
	fr.in.call(fr, d.fn, d.args, d.site, true)
}

// call invokes a function value.
func (in *Interp) call(caller *frame, fn Value, args []Value, site ssa.Instruction, isDefer bool) Value {
	switch f := fn.(type) {
	case *ssa.Function:
		if r, ok := in.intrinsic(caller, f, args, isDefer); ok {
			return r
		}
		if f.Name() == "init" && !in.canInterpret(f) {
			return nil // initialisers of stubbed packages
		}
		if f.Blocks == nil || !in.canInterpret(f) {
			if in.opaqueCallee(f) {
				in.usedStubs["opaque:"+f.String()]++
				return in.opaqueResult(f.Signature.Results())
			}
			if !in.initDone {
				// a package-level initialiser calling into an unmodelled library: the
				// variable gets an opaque value; using it later is reported where it happens
				in.usedStubs["init-opaque:"+f.String()]++
				return in.opaqueResult(f.Signature.Results())
			}
			in.unsupported("call to external %s", f.String())
		}
		return in.callFunctionD(caller, f, args, nil, isDefer)
	case *Closure:
		if r, ok := in.intrinsic(caller, f.Fn, args, isDefer); ok {
			return r
		}
		return in.callFunctionD(caller, f.Fn, args, f.Env, isDefer)
	case *ssa.Builtin:
		return in.builtin(caller, f, args, site)
	case *NativeFunc:
		return f.Fn(in, args)
	case nil:
		caller.tpanic("nil-func", in.runtimeError("invalid memory address or nil pointer dereference"))
	}
	panic(fmt.Sprintf("call: bad function value %T", fn))
}

func (in *Interp) callFunctionD(caller *frame, fn *ssa.Function, args []Value, env []Value, isDefer bool) Value {
	return in.callFunction(caller, fn, args, env)
}

func (in *Interp) canInterpret(f *ssa.Function) bool {
	if f.Pkg == nil {
		// synthetic wrappers / bound methods / instantiations: interpret if the
		// underlying object belongs to an interpreted package or unknown
		if f.Object() != nil && f.Object().Pkg() != nil {
			return in.P.interpreted(f.Object().Pkg()) || in.cfg.ExtraPkgs[f.Object().Pkg().Path()]
		}
		if o := f.Origin(); o != nil && o.Pkg != nil {
			return in.P.interpreted(o.Pkg.Pkg) || in.cfg.ExtraPkgs[o.Pkg.Pkg.Path()]
		}
		return true
	}
	return in.P.interpreted(f.Pkg.Pkg) || in.cfg.ExtraPkgs[f.Pkg.Pkg.Path()]
}

// opaqueCallee: library functions of the packages a harness declares opaque
// (crypto plumbing, testify) are replaced by nondeterminism-free stubs that
// return zero / fresh opaque values and never fail.
func (in *Interp) opaqueCallee(f *ssa.Function) bool {
	if len(in.cfg.OpaquePkgs) == 0 {
		return false
	}
	var path string
	if f.Pkg != nil {
		path = f.Pkg.Pkg.Path()
	} else if f.Object() != nil && f.Object().Pkg() != nil {
		path = f.Object().Pkg().Path()
	} else if o := f.Origin(); o != nil && o.Pkg != nil {
		path = o.Pkg.Pkg.Path()
	}
	for _, p := range in.cfg.OpaquePkgs {
		if path == p || strings.HasPrefix(path, p+"/") || (strings.HasSuffix(p, "/") && strings.HasPrefix(path, p)) {
			return true
		}
	}
	return false
}

func (in *Interp) opaqueResult(res *types.Tuple) Value {
	one := func(t types.Type) Value {
		switch u := t.Underlying().(type) {
		case *types.Pointer:
			cell := new(Value)
			*cell = in.zero(u.Elem())
			return cell
		case *types.Interface:
			if types.Identical(t, types.Universe.Lookup("error").Type()) {
				return Iface{}
			}
			return in.ifaceOf(in.newObj("opaque"))
		case *types.Slice:
			arr := []Value{}
			return Slice{arr: &arr}
		}
		return in.zero(t)
	}
	switch res.Len() {
	case 0:
		return nil
	case 1:
		return one(res.At(0).Type())
	}
	out := make(Tuple, res.Len())
	for i := range out {
		out[i] = one(res.At(i).Type())
	}
	return out
}

func (in *Interp) runtimeError(msg string) Value {
	o := in.newObj("error")
	o.str = CStr("runtime error: " + msg)
	o.b = true // runtime error
	return in.ifaceOf(o)
}

// ------------------------------------------------------------------
// instruction visitor; returns true if control transferred

func (fr *frame) visit(instr ssa.Instruction) bool {
	in := fr.in
	switch x := instr.(type) {
	case *ssa.DebugRef:
	case *ssa.UnOp:
		fr.env[x] = in.unop(fr, x)
	case *ssa.BinOp:
		fr.env[x] = in.binopT(fr, x.Op, x.X.Type(), x.Y.Type(), fr.get(x.X), fr.get(x.Y))
	case *ssa.Call:
		fn, args := fr.prepareCall(&x.Call)
		fr.env[x] = in.call(fr, fn, args, x, false)
	case *ssa.ChangeInterface:
		fr.env[x] = fr.get(x.X)
	case *ssa.ChangeType:
		fr.env[x] = fr.get(x.X)
	case *ssa.Convert:
		fr.env[x] = in.convert(fr, x.X.Type(), x.Type(), fr.get(x.X))
	case *ssa.SliceToArrayPointer:
		in.unsupported("SliceToArrayPointer")
	case *ssa.MakeInterface:
		fr.env[x] = Iface{T: x.X.Type(), V: fr.get(x.X)}
	case *ssa.Extract:
		fr.env[x] = fr.get(x.Tuple).(Tuple)[x.Index]
	case *ssa.Slice:
		fr.env[x] = in.sliceOp(fr, x)
	case *ssa.Return:
		switch len(x.Results) {
		case 0:
		case 1:
			fr.result = fr.get(x.Results[0])
		default:
			res := make(Tuple, len(x.Results))
			for i, r := range x.Results {
				res[i] = fr.get(r)
			}
			fr.result = res
		}
		fr.block = nil
		return true
	case *ssa.RunDefers:
		fr.runDefers()
		if fr.panicking {
			panic(fr.panicVal)
		}
	case *ssa.Panic:
		fr.tpanic("explicit", fr.get(x.X))
	case *ssa.Send:
		ch, _ := fr.get(x.Chan).(*Chan)
		if ch == nil {
			in.block("send on nil channel", func() bool { return false })
		}
		if ch.cp == 0 || ch.ctx != nil || ch.timer != nil {
			in.unsupported("send on an unbuffered channel")
		}
		in.maybePreempt("chan")
		c := ch
		in.block("chan send", func() bool { return c.closed || len(c.queue) < c.cp })
		if ch.closed {
			fr.tpanic("explicit", CStr("send on closed channel"))
		}
		ch.queue = append(ch.queue, copyVal(fr.get(x.X)))
		in.emit("chan.send", fmt.Sprintf("chan#%d", ch.id))
	case *ssa.Store:
		sp := fr.getPtr(x.Addr, "store")
		if in.roCells[sp] {
			in.unsupported("store into an immutable symbolic byte view at %s", fr.where())
		}
		in.store(sp, fr.get(x.Val))
	case *ssa.If:
		succ := 1
		if in.branch(fr.get(x.Cond), fr.where()) {
			succ = 0
		}
		fr.prev, fr.block = fr.block, fr.block.Succs[succ]
		return true
	case *ssa.Jump:
		fr.prev, fr.block = fr.block, fr.block.Succs[0]
		return true
	case *ssa.Defer:
		fn, args := fr.prepareCall(&x.Call)
		fr.defers = append(fr.defers, deferred{fn: fn, args: args, site: x})
	case *ssa.Go:
		fn, args := fr.prepareCall(&x.Call)
		in.spawn(fr, fn, args)
	case *ssa.MakeChan:
		in.objSeq++
		fr.env[x] = &Chan{id: in.objSeq, cp: in.concreteInt(fr, fr.get(x.Size), "make(chan) size")}
	case *ssa.Alloc:
		cell := new(Value)
		*cell = in.zero(x.Type().(*types.Pointer).Elem())
		fr.env[x] = cell
	case *ssa.MakeSlice:
		if l, ok := fr.get(x.Len).(Int); ok && l == 0 {
			if _, symCap := fr.get(x.Cap).(*Term); symCap {
				if eb, ok := x.Type().Underlying().(*types.Slice).Elem().Underlying().(*types.Basic); ok && eb.Kind() == types.Uint8 {
					// make([]byte, 0, n) with a symbolic capacity: an empty byte string to append to
					fr.env[x] = SymBytes{}
					break
				}
			}
		}
		n := in.concreteInt(fr, fr.get(x.Len), "make len")
		c := in.concreteInt(fr, fr.get(x.Cap), "make cap")
		if n < 0 || c < n {
			fr.tpanic("makeslice", in.runtimeError("makeslice: len out of range"))
		}
		arr := make([]Value, c)
		el := x.Type().Underlying().(*types.Slice).Elem()
		for i := range arr {
			arr[i] = in.zero(el)
		}
		fr.env[x] = Slice{arr: &arr, n: n, cp: c}
	case *ssa.MakeMap:
		fr.env[x] = NewMap()
	case *ssa.Range:
		fr.env[x] = in.rangeIter(fr, x)
	case *ssa.Next:
		fr.env[x] = in.next(fr, x)
	case *ssa.FieldAddr:
		p := fr.getPtr(x.X, "field")
		s, ok := (*p).(Struct)
		if !ok {
			panic(fmt.Sprintf("FieldAddr on %T in %s", *p, fr.where()))
		}
		fr.env[x] = &s[x.Field]
	case *ssa.Field:
		fr.env[x] = copyVal(fr.get(x.X).(Struct)[x.Field])
	case *ssa.IndexAddr:
		fr.env[x] = in.indexAddr(fr, x)
	case *ssa.Index:
		fr.env[x] = in.index(fr, x)
	case *ssa.Lookup:
		fr.env[x] = in.lookup(fr, x)
	case *ssa.MapUpdate:
		m, _ := fr.get(x.Map).(*Map)
		if m == nil {
			fr.tpanic("nil-map", in.runtimeError("assignment to entry in nil map"))
		}
		if !m.Set(fr.get(x.Key), copyVal(fr.get(x.Value))) {
			keyT := x.Map.Type().Underlying().(*types.Map).Key()
			if !in.mapSetSym(m, fr.get(x.Key), copyVal(fr.get(x.Value)), keyT) {
				in.unsupported("map update with symbolic key at %s", fr.where())
			}
			break
		}
		if false {
		}
	case *ssa.TypeAssert:
		fr.env[x] = in.typeAssert(fr, x)
	case *ssa.MakeClosure:
		env := make([]Value, len(x.Bindings))
		for i, b := range x.Bindings {
			env[i] = fr.get(b)
		}
		fr.env[x] = &Closure{Fn: x.Fn.(*ssa.Function), Env: env}
	case *ssa.Phi:
		for i, pred := range x.Block().Preds {
			if fr.prev == pred {
				fr.env[x] = fr.get(x.Edges[i])
				// an inductive harness may start a named loop variable from an arbitrary value:
				// the constant that enters the loop from outside is replaced once (vLoopInit)
				if len(in.loopInit) > 0 {
					if _, isConst := x.Edges[i].(*ssa.Const); isConst {
						key := fr.fn.String() + ":" + x.Comment
						if v, ok := in.loopInit[key]; ok {
							fr.env[x] = v
							delete(in.loopInit, key)
							in.emit("loop.init", key)
						}
					}
				}
				break
			}
		}
	case *ssa.Select:
		fr.env[x] = in.selectOp(fr, x)
	default:
		panic(fmt.Sprintf("unexpected instruction: %T", instr))
	}
	return false
}

func (fr *frame) getPtr(v ssa.Value, what string) *Value {
	p, _ := fr.get(v).(*Value)
	if p == nil {
		fr.tpanic("nil-deref", fr.in.runtimeError("invalid memory address or nil pointer dereference"))
	}
	return p
}

func (fr *frame) prepareCall(c *ssa.CallCommon) (Value, []Value) {
	in := fr.in
	v := fr.get(c.Value)
	var args []Value
	var fn Value
	if c.Method == nil {
		fn = v
	} else {
		// interface method invocation
		switch recv := v.(type) {
		case Iface:
			if recv.T == nil {
				fr.tpanic("nil-deref", in.runtimeError("invalid memory address or nil pointer dereference"))
			}
			if o, ok := recv.V.(*Obj); ok {
				name := c.Method.Name()
				msig, _ := c.Method.Type().(*types.Signature)
				fn = &NativeFunc{Name: o.Kind + "." + name, Fn: func(in *Interp, a []Value) Value {
					if o.Kind == "opaque" && msig != nil {
						return in.opaqueResult(msig.Results())
					}
					return in.objMethod(fr, o, name, a)
				}}
			} else {
				f := in.P.Prog.LookupMethod(recv.T, c.Method.Pkg(), c.Method.Name())
				if f == nil {
					panic(fmt.Sprintf("method %s not found on %v", c.Method.Name(), recv.T))
				}
				fn = f
				args = append(args, recv.V)
			}
		case *SymIface:
			in.unsupported("method call on symbolic interface at %s", fr.where())
		default:
			panic(fmt.Sprintf("invoke on %T at %s", v, fr.where()))
		}
	}
	for _, a := range c.Args {
		args = append(args, fr.get(a))
	}
	return fn, args
}

func (in *Interp) concreteInt(fr *frame, v Value, what string) int {
	switch x := v.(type) {
	case Int:
		return int(int64(x))
	case *Term:
		if x.IsConst() {
			return int(sext(x.cval, x.sort.W))
		}
		return in.concretize(x, what)
	}
	panic(fmt.Sprintf("concreteInt: %T", v))
}

// concretize enumerates the feasible values of a small-range symbolic int by forking.
func (in *Interp) concretize(t *Term, what string) int {
	// try values 0..cfg.ConcretizeMax
	max := in.cfg.ConcretizeMax
	conds := make([]*Term, 0, max+2)
	for i := 0; i <= max; i++ {
		conds = append(conds, in.tt.Eq(t, in.tt.BVConst(uint64(i), t.sort.W)))
	}
	// the remainder
	conds = append(conds, in.tt.BVCmp("bvugt", t, in.tt.BVConst(uint64(max), t.sort.W)))
	i := in.fork(conds, "concretize "+what)
	if i > max {
		in.path.cuts = append(in.path.cuts, "concretize:"+what)
		in.end("cut", "symbolic size beyond concretisation bound at "+what)
	}
	return i
}

var debugTrace = os.Getenv("GOSYM_TRACE") != ""

var forkStat map[string]int
var forkMu sync.Mutex

func init() {
	if os.Getenv("GOSYM_FORKSTAT") != "" {
		forkStat = map[string]int{}
	}
}
