package main

// Environment stubs (DESIGN §5): library functions that are not interpreted
// from SSA.  Each entry is part of the trusted base and is listed in the
// evidence of every check that reached it.

import (
	"fmt"
	"go/token"
	"go/types"
	"regexp"
	"sort"
	"strconv"
	"strings"

	"golang.org/x/tools/go/ssa"
)

type intrinsicFn func(in *Interp, fr *frame, args []Value) (Value, bool)

var intrinsics map[string]intrinsicFn

func init() {
	intrinsics = map[string]intrinsicFn{}
	registerLibIntrinsics()
	registerEnvIntrinsics()
	registerHarnessIntrinsics()
}

func (in *Interp) intrinsic(fr *frame, f *ssa.Function, args []Value, isDefer bool) (Value, bool) {
	name := f.String()
	if h, ok := intrinsics[name]; ok {
		in.usedStubs[name]++
		r, handled := h(in, fr, args)
		if handled {
			return r, true
		}
		in.usedStubs[name]--
	}
	return nil, false
}

func okTuple(vs ...Value) Value { return Tuple(vs) }

func (in *Interp) nilErr() Value { return Iface{} }

func (in *Interp) newError(msg Str, wrapped Value) Value {
	o := in.newObj("error")
	o.str = msg
	if wrapped != nil {
		o.F["wrapped"] = wrapped
	}
	return in.ifaceOf(o)
}

// errObj returns the *Obj behind an error interface value (nil if none).
func errObj(v Value) *Obj {
	if it, ok := v.(Iface); ok && it.T != nil {
		if o, ok := it.V.(*Obj); ok && o.Kind == "error" {
			return o
		}
	}
	return nil
}

func (in *Interp) externalGlobal(g *ssa.Global, elem types.Type) Value {
	name := g.Pkg.Pkg.Path() + "." + g.Name()
	if v, ok := in.extGlobals[name]; ok {
		return v
	}
	var v Value
	switch name {
	case "io.EOF":
		v = in.newError(CStr("EOF"), nil)
	case "io.ErrUnexpectedEOF":
		v = in.newError(CStr("unexpected EOF"), nil)
	case "os.Stdout", "os.Stderr":
		cell := new(Value)
		*cell = in.newObj("osfile")
		v = cell
	case "net.DefaultResolver":
		cell := new(Value)
		*cell = in.newObj("resolver")
		v = cell
	case "crypto/rand.Reader":
		v = in.ifaceOf(in.newObj("randreader"))
	default:
		if _, ok := elem.Underlying().(*types.Interface); ok && strings.HasPrefix(g.Name(), "Err") {
			v = in.newError(CStr(name), nil)
		} else {
			v = in.zero(elem)
		}
	}
	in.extGlobals[name] = v
	return v
}

// ------------------------------------------------------------------
// formatting

// toNative converts a concrete value for native fmt; ok=false if symbolic.
func (in *Interp) toNative(v Value) (interface{}, bool) {
	switch x := v.(type) {
	case nil:
		return nil, true
	case bool:
		return x, true
	case Int:
		return int64(x), true
	case float64:
		return x, true
	case Str:
		c, ok := x.Concrete()
		return c, ok
	case *Term:
		return nil, false
	case Iface:
		if x.T == nil {
			return nil, true
		}
		if o := errObj(x); o != nil {
			m, ok := in.errorMessage(o).Concrete()
			if !ok {
				return nil, false
			}
			return fmt.Errorf("%s", m), true
		}
		if isInteger(x.T) {
			if i, ok := x.V.(Int); ok {
				w, s := intInfo(x.T)
				_ = w
				if s {
					return int64(i), true
				}
				return uint64(i), true
			}
			return nil, false
		}
		if isString(x.T) {
			if s, ok := x.V.(Str); ok {
				if c, ok := s.Concrete(); ok {
					// named string types with String methods are not distinguished
					return c, true
				}
			}
			return nil, false
		}
		if isBool(x.T) {
			if b, ok := x.V.(bool); ok {
				return b, true
			}
			return nil, false
		}
		return fmt.Sprintf("<%s>", x.T.String()), true
	case *SymIface:
		return nil, false
	case *Value:
		if x == nil {
			return nil, true
		}
		return "<ptr>", true
	case Slice:
		if x.symLen != nil {
			return nil, false
		}
		var out []interface{}
		if x.arr != nil {
			for _, e := range (*x.arr)[x.off : x.off+x.n] {
				n, ok := in.toNative(e)
				if !ok {
					return nil, false
				}
				out = append(out, n)
			}
		}
		return out, true
	case SymBytes:
		c, ok := x.s.Concrete()
		return []byte(c), ok
	case *Obj:
		return x.String(), true
	}
	return fmt.Sprintf("<%T>", v), true
}

// sprintf renders format+args into a Str; symbolic arguments become pieces.
func (in *Interp) sprintf(format string, args []Value) Str {
	// fast path: everything concrete
	nat := make([]interface{}, len(args))
	all := true
	for i, a := range args {
		n, ok := in.toNative(a)
		if !ok {
			all = false
			break
		}
		nat[i] = n
	}
	if all {
		f := strings.ReplaceAll(format, "%w", "%v")
		return CStr(fmt.Sprintf(f, nat...))
	}
	out := Str{}
	ai := 0
	i := 0
	for i < len(format) {
		c := format[i]
		if c != '%' {
			j := i
			for j < len(format) && format[j] != '%' {
				j++
			}
			out = concatStr(out, CStr(format[i:j]))
			i = j
			continue
		}
		// parse verb
		j := i + 1
		for j < len(format) && strings.IndexByte("+-# 0123456789.", format[j]) >= 0 {
			j++
		}
		if j >= len(format) {
			out = concatStr(out, CStr(format[i:]))
			break
		}
		verb := format[j]
		spec := format[i : j+1]
		i = j + 1
		if verb == '%' {
			out = concatStr(out, CStr("%"))
			continue
		}
		if ai >= len(args) {
			out = concatStr(out, CStr("%!"+string(verb)+"(MISSING)"))
			continue
		}
		a := args[ai]
		ai++
		if n, ok := in.toNative(a); ok {
			sp := spec
			if verb == 'w' {
				sp = "%v"
			}
			out = concatStr(out, CStr(fmt.Sprintf(sp, n)))
			continue
		}
		out = concatStr(out, in.formatSym(spec, verb, a))
	}
	return out
}

func (in *Interp) formatSym(spec string, verb byte, a Value) Str {
	if it, ok := a.(Iface); ok && it.T != nil {
		if o := errObj(it); o != nil {
			return in.errorMessage(o)
		}
		if isString(it.T) && (spec == "%s" || spec == "%v" || spec == "%w") {
			return it.V.(Str)
		}
		if isInteger(it.T) {
			if t, ok := it.V.(*Term); ok {
				return in.fmtIntStr(t, it.T, spec)
			}
		}
		a = it.V
	}
	switch x := a.(type) {
	case Str:
		if spec == "%s" || spec == "%v" {
			return x
		}
	case SymBytes:
		if spec == "%s" {
			return x.s
		}
	}
	// opaque rendering
	return in.opaqueStr("fmt")
}

func (in *Interp) opaqueStr(prefix string) Str {
	a := in.tt.Fresh(prefix, SeqSort)
	l := in.tt.Fresh(prefix+"len", BV(64))
	in.assume(in.tt.BVCmp("bvult", l, in.tt.BVConst(1<<31, 64)))
	return Str{p: []piece{{k: pkAtom, t: a, n: l}}}
}

// fmtIntStr is the decimal rendering of a symbolic integer as an uninterpreted
// (injective by construction of parse) function of its 64-bit value.
func (in *Interp) fmtIntStr(t *Term, typ types.Type, spec string) Str {
	w, s := intInfo(typ)
	v := t
	if w < 64 {
		if s {
			v = in.tt.SignExt(t, 64)
		} else {
			v = in.tt.ZeroExt(t, 64)
		}
	}
	name := "fmtint"
	if !s {
		name = "fmtuint"
	}
	if spec != "%d" && spec != "%v" {
		name += "_" + strings.Trim(spec, "%")
	}
	seq := in.tt.UF(name, SeqSort, v)
	ln := in.tt.UF(name+"_len", BV(64), v)
	key := fmt.Sprintf("%s|%d", name, v.id)
	if !in.fmtAsserted[key] {
		in.fmtAsserted[key] = true
		in.assume(in.tt.BVCmp("bvuge", ln, in.tt.BVConst(1, 64)))
		in.assume(in.tt.BVCmp("bvule", ln, in.tt.BVConst(20, 64)))
	}
	return Str{p: []piece{{k: pkAtom, t: seq, n: ln}}}
}

func (in *Interp) errorMessage(o *Obj) Str { return o.str }

func variadicArgs(v Value) []Value {
	s, ok := v.(Slice)
	if !ok || s.arr == nil {
		return nil
	}
	return append([]Value{}, (*s.arr)[s.off:s.off+s.n]...)
}

func strArg(v Value) Str {
	switch x := v.(type) {
	case Str:
		return x
	}
	panic(fmt.Sprintf("strArg: %T", v))
}

func (in *Interp) needConcrete(fr *frame, what string, vs ...Value) []string {
	out := make([]string, len(vs))
	for i, v := range vs {
		c, ok := strArg(v).Concrete()
		if !ok {
			in.unsupported("%s with symbolic string at %s", what, fr.where())
		}
		out[i] = c
	}
	return out
}

func strSliceValue(ss []string) Value {
	arr := make([]Value, len(ss))
	for i, s := range ss {
		arr[i] = CStr(s)
	}
	return Slice{arr: &arr, n: len(arr), cp: len(arr)}
}

func registerLibIntrinsics() {
	I := intrinsics
	I["fmt.Errorf"] = func(in *Interp, fr *frame, args []Value) (Value, bool) {
		format, _ := strArg(args[0]).Concrete()
		va := variadicArgs(args[1])
		var wrapped Value
		// find %w operand
		ai := 0
		for i := 0; i+1 < len(format); i++ {
			if format[i] == '%' {
				j := i + 1
				for j < len(format) && strings.IndexByte("+-# 0123456789.", format[j]) >= 0 {
					j++
				}
				if j < len(format) {
					if format[j] == '%' {
						i = j
						continue
					}
					if format[j] == 'w' && ai < len(va) {
						wrapped = va[ai]
					}
					ai++
					i = j
				}
			}
		}
		return in.newError(in.sprintf(format, va), wrapped), true
	}
	I["fmt.Sprintf"] = func(in *Interp, fr *frame, args []Value) (Value, bool) {
		format, _ := strArg(args[0]).Concrete()
		return in.sprintf(format, variadicArgs(args[1])), true
	}
	I["fmt.Sprint"] = func(in *Interp, fr *frame, args []Value) (Value, bool) {
		va := variadicArgs(args[0])
		f := strings.Repeat("%v", len(va))
		return in.sprintf(f, va), true
	}
	noop := func(ret Value) intrinsicFn {
		return func(in *Interp, fr *frame, args []Value) (Value, bool) { return ret, true }
	}
	I["fmt.Fprintf"] = func(in *Interp, fr *frame, args []Value) (Value, bool) {
		format, _ := strArg(args[1]).Concrete()
		s := in.sprintf(format, variadicArgs(args[2]))
		in.writeTo(fr, args[0], s)
		return Tuple{Int(0), Iface{}}, true
	}
	I["fmt.Sscanf"] = func(in *Interp, fr *frame, args []Value) (Value, bool) {
		c := in.needConcrete(fr, "fmt.Sscanf", args[0], args[1])
		ptrs := variadicArgs(args[2])
		nat := make([]interface{}, len(ptrs))
		ints := make([]int, len(ptrs))
		for i := range ptrs {
			nat[i] = &ints[i]
		}
		n, err := fmt.Sscanf(c[0], c[1], nat...)
		for i, p := range ptrs {
			if it, ok := p.(Iface); ok {
				if cell, ok := it.V.(*Value); ok && i < n {
					*cell = normInt(uint64(int64(ints[i])), 64, true)
				}
			}
		}
		if err != nil {
			return Tuple{Int(n), in.newError(CStr(err.Error()), nil)}, true
		}
		return Tuple{Int(n), Iface{}}, true
	}
	I["fmt.Println"] = noop(Tuple{Int(0), Iface{}})
	I["fmt.Printf"] = noop(Tuple{Int(0), Iface{}})
	I["fmt.Print"] = noop(Tuple{Int(0), Iface{}})

	I["errors.New"] = func(in *Interp, fr *frame, args []Value) (Value, bool) {
		return in.newError(strArg(args[0]), nil), true
	}
	I["errors.Is"] = func(in *Interp, fr *frame, args []Value) (Value, bool) {
		target := errObj(args[1])
		cur := args[0]
		// a syscall.Errno target (e.g. syscall.EADDRINUSE): matched against the errno the
		// environment attached to the error chain
		if it, ok := args[1].(Iface); ok && it.T != nil && it.T.String() == "syscall.Errno" {
			want, _ := it.V.(Int)
			for i := 0; i < 50; i++ {
				o := errObj(cur)
				if o == nil {
					return false, true
				}
				if e, ok := o.F["errno"].(Int); ok && e == want {
					return true, true
				}
				cur = o.F["wrapped"]
				if cur == nil {
					return false, true
				}
			}
			return false, true
		}
		for i := 0; i < 50; i++ {
			o := errObj(cur)
			if o == nil {
				return false, true
			}
			if o == target {
				return true, true
			}
			cur = o.F["wrapped"]
			if cur == nil {
				return false, true
			}
		}
		return false, true
	}
	I["errors.As"] = func(in *Interp, fr *frame, args []Value) (Value, bool) {
		tgt, _ := args[1].(Iface)
		ptr, _ := tgt.V.(*Value)
		pt, ok := tgt.T.(*types.Pointer)
		if ptr == nil || !ok {
			fr.tpanic("explicit", CStr("errors: target must be a non-nil pointer"))
		}
		key := "as:" + pt.Elem().String()
		cur := args[0]
		for i := 0; i < 50; i++ {
			o := errObj(cur)
			if o == nil {
				return false, true
			}
			if v, ok := o.F[key]; ok {
				*ptr = copyVal(v)
				return true, true
			}
			// an error interface target matches any error
			if _, isI := pt.Elem().Underlying().(*types.Interface); isI {
				*ptr = cur
				return true, true
			}
			cur = o.F["wrapped"]
			if cur == nil {
				return false, true
			}
		}
		return false, true
	}
	I["errors.Unwrap"] = func(in *Interp, fr *frame, args []Value) (Value, bool) {
		o := errObj(args[0])
		if o == nil || o.F["wrapped"] == nil {
			return Iface{}, true
		}
		return o.F["wrapped"], true
	}

	// strings
	I["strings.Contains"] = func(in *Interp, fr *frame, args []Value) (Value, bool) {
		s, sub := strArg(args[0]), strArg(args[1])
		cs, ok1 := s.Concrete()
		csub, ok2 := sub.Concrete()
		if ok1 && ok2 {
			return strings.Contains(cs, csub), true
		}
		if ok2 {
			// symbolic haystack: true if a concrete piece contains the needle
			for _, p := range s.p {
				if p.k == pkBytes && strings.Contains(p.b, csub) {
					return true, true
				}
			}
			// numeric renderings cannot contribute letters
			onlyNum := true
			for _, p := range s.p {
				if p.k == pkAtom && !(p.t.op == "uf" && strings.Contains(p.t.name, "fmt")) {
					onlyNum = false
				}
				if p.k == pkUnit {
					onlyNum = false
				}
			}
			hasLetter := strings.IndexFunc(csub, func(r rune) bool { return (r >= 'a' && r <= 'z') || (r >= 'A' && r <= 'Z') || r == ' ' }) >= 0
			if onlyNum && hasLetter {
				// the needle would have to straddle concrete pieces and digits only
				return false, true
			}
		}
		r := in.tt.UF("str_contains", BoolSort, s.SeqTerm(in.tt), sub.SeqTerm(in.tt))
		return boolVal(r), true
	}
	I["strings.EqualFold"] = func(in *Interp, fr *frame, args []Value) (Value, bool) {
		a, b := strArg(args[0]), strArg(args[1])
		ca, ok1 := a.Concrete()
		cb, ok2 := b.Concrete()
		if ok1 && ok2 {
			return strings.EqualFold(ca, cb), true
		}
		return in.equalFold(fr, a, b), true
	}
	I["strings.HasPrefix"] = func(in *Interp, fr *frame, args []Value) (Value, bool) {
		a, b := strArg(args[0]), strArg(args[1])
		ca, ok1 := a.Concrete()
		cb, ok2 := b.Concrete()
		if ok1 && ok2 {
			return strings.HasPrefix(ca, cb), true
		}
		r := in.tt.mk("seq.prefixof", "", BoolSort, 0, b.SeqTerm(in.tt), a.SeqTerm(in.tt))
		return boolVal(r), true
	}
	I["strings.HasSuffix"] = func(in *Interp, fr *frame, args []Value) (Value, bool) {
		a, b := strArg(args[0]), strArg(args[1])
		ca, ok1 := a.Concrete()
		cb, ok2 := b.Concrete()
		if ok1 && ok2 {
			return strings.HasSuffix(ca, cb), true
		}
		r := in.tt.mk("seq.suffixof", "", BoolSort, 0, b.SeqTerm(in.tt), a.SeqTerm(in.tt))
		return boolVal(r), true
	}
	conc1 := func(name string, f func(a string) Value) {
		I[name] = func(in *Interp, fr *frame, args []Value) (Value, bool) {
			c := in.needConcrete(fr, name, args[0])
			return f(c[0]), true
		}
	}
	conc2 := func(name string, f func(a, b string) Value) {
		I[name] = func(in *Interp, fr *frame, args []Value) (Value, bool) {
			c := in.needConcrete(fr, name, args[0], args[1])
			return f(c[0], c[1]), true
		}
	}
	conc1("strings.ToLower", func(a string) Value { return CStr(strings.ToLower(a)) })
	conc1("strings.ToUpper", func(a string) Value { return CStr(strings.ToUpper(a)) })
	conc1("strings.TrimSpace", func(a string) Value { return CStr(strings.TrimSpace(a)) })
	conc2("strings.TrimPrefix", func(a, b string) Value { return CStr(strings.TrimPrefix(a, b)) })
	conc2("strings.TrimSuffix", func(a, b string) Value { return CStr(strings.TrimSuffix(a, b)) })
	conc2("strings.Trim", func(a, b string) Value { return CStr(strings.Trim(a, b)) })
	conc2("strings.Index", func(a, b string) Value { return normInt(uint64(int64(strings.Index(a, b))), 64, true) })
	conc2("strings.Split", func(a, b string) Value { return strSliceValue(strings.Split(a, b)) })
	conc2("strings.Count", func(a, b string) Value { return Int(strings.Count(a, b)) })
	I["strings.IndexByte"] = func(in *Interp, fr *frame, args []Value) (Value, bool) {
		c := in.needConcrete(fr, "strings.IndexByte", args[0])
		b, ok := args[1].(Int)
		if !ok {
			in.unsupported("strings.IndexByte symbolic byte")
		}
		return normInt(uint64(int64(strings.IndexByte(c[0], byte(b)))), 64, true), true
	}
	I["strings.Repeat"] = func(in *Interp, fr *frame, args []Value) (Value, bool) {
		c := in.needConcrete(fr, "strings.Repeat", args[0])
		n := in.concreteInt(fr, args[1], "Repeat")
		if n < 0 || n > 1<<16 {
			in.unsupported("strings.Repeat count %d", n)
		}
		return CStr(strings.Repeat(c[0], n)), true
	}
	I["strings.ReplaceAll"] = func(in *Interp, fr *frame, args []Value) (Value, bool) {
		c := in.needConcrete(fr, "strings.ReplaceAll", args[0], args[1], args[2])
		return CStr(strings.ReplaceAll(c[0], c[1], c[2])), true
	}
	I["strings.Join"] = func(in *Interp, fr *frame, args []Value) (Value, bool) {
		parts := variadicArgs(args[0])
		sep := strArg(args[1])
		out := Str{}
		for i, p := range parts {
			if i > 0 {
				out = concatStr(out, sep)
			}
			out = concatStr(out, strArg(p))
		}
		return out, true
	}

	// strconv
	for name, f := range map[string]func(string) string{"strings.ToLower": strings.ToLower, "strings.ToUpper": strings.ToUpper, "strings.TrimSpace": strings.TrimSpace} {
		f, name := f, name
		I[name] = func(in *Interp, fr *frame, args []Value) (Value, bool) {
			src := strArg(args[0])
			c, ok := src.Concrete()
			if ok {
				return CStr(f(c)), true
			}
			if name == "strings.TrimSpace" {
				in.unsupported("%s of a symbolic string", name)
			}
			// case mapping of a symbolic string: per byte for ASCII content of a (small) known length;
			// longer strings are cut, non-ASCII content leaves the supported fragment
			var n int
			switch lv := src.LenValue(in.tt).(type) {
			case Int:
				n = int(lv)
			case *Term:
				// lengths 0..3 are explored, longer symbolic strings are cut (recorded as such)
				conds := make([]*Term, 0, 5)
				for i := 0; i <= 3; i++ {
					conds = append(conds, in.tt.Eq(lv, in.tt.BVConst(uint64(i), lv.sort.W)))
				}
				conds = append(conds, in.tt.BVCmp("bvugt", lv, in.tt.BVConst(3, lv.sort.W)))
				n = in.fork(conds, name+" length")
				if n > 3 {
					in.path.cuts = append(in.path.cuts, "case mapping of a symbolic string longer than 3 bytes")
					in.end("cut", "case mapping of a symbolic string longer than 3 bytes")
				}
			}
			tt := in.tt
			u8 := types.Typ[types.Uint8]
			out := Str{}
			for i := 0; i < n; i++ {
				b := in.strByte(src, i)
				if cb, ok := b.(Int); ok {
					out = concatStr(out, CStr(f(string([]byte{byte(cb)}))))
					continue
				}
				bt := in.toTerm(b, u8)
				if !in.branch(boolVal(tt.BVCmp("bvult", bt, tt.BVConst(0x80, 8))), name+": ASCII byte") {
					in.unsupported("%s of non-ASCII symbolic content", name)
				}
				lo, hi, delta := byte('A'), byte('Z'), uint64(32)
				if name == "strings.ToUpper" {
					lo, hi, delta = 'a', 'z', 0x100-32
				}
				inRange := tt.And(tt.BVCmp("bvuge", bt, tt.BVConst(uint64(lo), 8)), tt.BVCmp("bvule", bt, tt.BVConst(uint64(hi), 8)))
				mapped := tt.Ite(inRange, tt.BVOp("bvadd", bt, tt.BVConst(delta, 8)), bt)
				out = concatStr(out, strFromValues([]Value{in.fromTerm(mapped, u8)}))
			}
			return out, true
		}
	}
	I["strings.CutPrefix"] = func(in *Interp, fr *frame, args []Value) (Value, bool) {
		r, ok := I["strings.HasPrefix"](in, fr, args)
		if !ok {
			return nil, false
		}
		s, pre := strArg(args[0]), strArg(args[1])
		if in.branch(r, "strings.CutPrefix") {
			return Tuple{in.strSlice(fr, s, pre.LenValue(in.tt), nil), true}, true
		}
		return Tuple{s, false}, true
	}
	I["strings.CutSuffix"] = func(in *Interp, fr *frame, args []Value) (Value, bool) {
		r, ok := I["strings.HasSuffix"](in, fr, args)
		if !ok {
			return nil, false
		}
		s, suf := strArg(args[0]), strArg(args[1])
		if in.branch(r, "strings.CutSuffix") {
			cs, ok1 := s.Concrete()
			cf, ok2 := suf.Concrete()
			if !ok1 || !ok2 {
				in.unsupported("strings.CutSuffix of symbolic strings")
			}
			return Tuple{CStr(cs[:len(cs)-len(cf)]), true}, true
		}
		return Tuple{s, false}, true
	}
	// Split on a one-byte separator: concrete bytes split where they stand, a symbolic byte
	// forks on being the separator, a symbolic string of unknown length forks on containing
	// the separator at all (not contained: it stays in its piece; contained: unsupported)
	split := func(asBytes bool) intrinsicFn {
		return func(in *Interp, fr *frame, args []Value) (Value, bool) {
			var src, sep Str
			if asBytes {
				a, ok1 := in.sliceToSym(fr, args[0])
				b, ok2 := in.sliceToSym(fr, args[1])
				if !ok1 || !ok2 {
					return nil, false
				}
				src, sep = a, b
			} else {
				src, sep = strArg(args[0]), strArg(args[1])
			}
			cs, ok := sep.Concrete()
			if !ok || len(cs) != 1 {
				in.unsupported("Split with a separator that is not one concrete byte")
			}
			sb := cs[0]
			var out []Str
			cur := Str{}
			for _, pc := range src.p {
				switch pc.k {
				case pkBytes:
					parts := strings.Split(pc.b, cs)
					for i, part := range parts {
						if i > 0 {
							out = append(out, cur)
							cur = Str{}
						}
						cur = concatStr(cur, CStr(part))
					}
				case pkUnit:
					eq := in.tt.Eq(pc.t, in.tt.BVConst(uint64(sb), 8))
					if in.branch(boolVal(eq), "split: byte is the separator") {
						out = append(out, cur)
						cur = Str{}
					} else {
						cur = concatStr(cur, Str{p: []piece{pc}})
					}
				case pkAtom:
					one := Str{p: []piece{pc}}
					cont := in.tt.mk("seq.contains", "", BoolSort, 0, one.SeqTerm(in.tt), in.tt.mk("seq.unit", "", one.SeqTerm(in.tt).sort, 0, in.tt.BVConst(uint64(sb), 8)))
					if in.branch(boolVal(cont), "split: symbolic string contains the separator") {
						in.unsupported("Split of a symbolic string of unknown length that contains the separator")
					}
					cur = concatStr(cur, one)
				}
			}
			out = append(out, cur)
			vals := make([]Value, len(out))
			for i, o := range out {
				if asBytes {
					vals[i] = SymBytes{s: o}
				} else {
					vals[i] = o
				}
			}
			return Slice{arr: &vals, n: len(vals), cp: len(vals)}, true
		}
	}
	I["bytes.Split"] = split(true)
	I["strings.Split"] = split(false)
	I["bytes.Join"] = func(in *Interp, fr *frame, args []Value) (Value, bool) {
		sl, ok := args[0].(Slice)
		sep, ok2 := in.sliceToSym(fr, args[1])
		if !ok || !ok2 || sl.symLen != nil {
			return nil, false
		}
		out := Str{}
		for i := 0; i < sl.n; i++ {
			e, ok := in.sliceToSym(fr, (*sl.arr)[sl.off+i])
			if !ok {
				return nil, false
			}
			if i > 0 {
				out = concatStr(out, sep)
			}
			out = concatStr(out, e)
		}
		return SymBytes{s: out}, true
	}
	// strings.Replacer with single-byte old strings (the byte-escaping idiom)
	I["strings.NewReplacer"] = func(in *Interp, fr *frame, args []Value) (Value, bool) {
		sl, ok := args[0].(Slice)
		if !ok || sl.symLen != nil {
			return nil, false
		}
		var pairs []string
		for i := 0; i < sl.n; i++ {
			str, ok := (*sl.arr)[sl.off+i].(Str)
			if !ok {
				return nil, false
			}
			c, ok := str.Concrete()
			if !ok {
				return nil, false
			}
			pairs = append(pairs, c)
		}
		if len(pairs)%2 != 0 {
			fr.tpanic("explicit", CStr("strings.NewReplacer: odd argument count"))
		}
		cell := new(Value)
		*cell = Struct{}
		o := in.newObj("replacer")
		o.F["pairs"] = strSliceValue(pairs)
		in.side[cell] = o
		return cell, true
	}
	I["(*strings.Replacer).Replace"] = func(in *Interp, fr *frame, args []Value) (Value, bool) {
		o := in.sideObj(args[0], "replacer")
		if o == nil {
			return nil, false
		}
		ps := o.F["pairs"].(Slice)
		var olds, news []string
		for i := 0; i+1 < ps.n; i += 2 {
			a, _ := (*ps.arr)[ps.off+i].(Str).Concrete()
			b, _ := (*ps.arr)[ps.off+i+1].(Str).Concrete()
			if len(a) != 1 {
				in.unsupported("strings.Replacer with a multi-byte or empty old string %q", a)
			}
			olds, news = append(olds, a), append(news, b)
		}
		src, ok := args[1].(Str)
		if !ok {
			return nil, false
		}
		if c, ok := src.Concrete(); ok {
			var kv []string
			for i := range olds {
				kv = append(kv, olds[i], news[i])
			}
			return CStr(strings.NewReplacer(kv...).Replace(c)), true
		}
		n, ok := src.ConcreteLen()
		if !ok || n > 8 {
			in.unsupported("strings.Replacer.Replace of a symbolic string of unbounded length")
		}
		out := Str{}
		for i := 0; i < n; i++ {
			b := in.strByte(src, i)
			done := false
			for k := range olds {
				eq := in.binopT(fr, token.EQL, types.Typ[types.Uint8], types.Typ[types.Uint8], b, Int(olds[k][0]))
				if in.branch(eq, "replacer byte") {
					out = concatStr(out, CStr(news[k]))
					done = true
					break
				}
			}
			if !done {
				out = concatStr(out, strFromValues([]Value{b}))
			}
		}
		return out, true
	}
	I["strconv.FormatInt"] = func(in *Interp, fr *frame, args []Value) (Value, bool) {
		base := in.concreteInt(fr, args[1], "FormatInt base")
		switch x := args[0].(type) {
		case Int:
			return CStr(strconv.FormatInt(int64(x), base)), true
		case *Term:
			if base != 10 {
				in.unsupported("FormatInt base %d symbolic", base)
			}
			return in.fmtIntStr(x, types.Typ[types.Int64], "%d"), true
		}
		return nil, false
	}
	fmtU := func(in *Interp, fr *frame, v Value, base int, signed bool) (Str, bool) {
		t := types.Typ[types.Uint64]
		if signed {
			t = types.Typ[types.Int64]
		}
		switch x := v.(type) {
		case Int:
			if signed {
				return CStr(strconv.FormatInt(int64(x), base)), true
			}
			return CStr(strconv.FormatUint(uint64(x), base)), true
		case *Term:
			if base != 10 {
				in.unsupported("integer formatting in base %d of a symbolic value", base)
			}
			return in.fmtIntStr(x, t, "%d"), true
		}
		return Str{}, false
	}
	I["strconv.FormatUint"] = func(in *Interp, fr *frame, args []Value) (Value, bool) {
		s, ok := fmtU(in, fr, args[0], in.concreteInt(fr, args[1], "FormatUint base"), false)
		return s, ok
	}
	appendNum := func(signed bool) intrinsicFn {
		return func(in *Interp, fr *frame, args []Value) (Value, bool) {
			dst, ok := in.sliceToSym(fr, args[0])
			if !ok {
				return nil, false
			}
			s, ok := fmtU(in, fr, args[1], in.concreteInt(fr, args[2], "strconv.Append base"), signed)
			if !ok {
				return nil, false
			}
			return SymBytes{s: concatStr(dst, s)}, true
		}
	}
	I["strconv.Quote"] = func(in *Interp, fr *frame, args []Value) (Value, bool) {
		if c, ok := strArg(args[0]).Concrete(); ok {
			return CStr(strconv.Quote(c)), true
		}
		return in.sprintf("%q", []Value{in.ifaceOfStr(strArg(args[0]))}), true
	}
	I["strconv.AppendQuote"] = func(in *Interp, fr *frame, args []Value) (Value, bool) {
		dst, ok := in.sliceToSym(fr, args[0])
		if !ok {
			return nil, false
		}
		var q Str
		if c, ok := strArg(args[1]).Concrete(); ok {
			q = CStr(strconv.Quote(c))
		} else {
			q = in.sprintf("%q", []Value{in.ifaceOfStr(strArg(args[1]))})
		}
		return SymBytes{s: concatStr(dst, q)}, true
	}
	I["strconv.AppendUint"] = appendNum(false)
	I["strconv.AppendInt"] = appendNum(true)
	I["strconv.Itoa"] = func(in *Interp, fr *frame, args []Value) (Value, bool) {
		switch x := args[0].(type) {
		case Int:
			return CStr(strconv.Itoa(int(int64(x)))), true
		case *Term:
			return in.fmtIntStr(x, types.Typ[types.Int64], "%d"), true
		}
		return nil, false
	}
	I["strconv.ParseInt"] = func(in *Interp, fr *frame, args []Value) (Value, bool) {
		s := strArg(args[0])
		base := in.concreteInt(fr, args[1], "ParseInt base")
		bits := in.concreteInt(fr, args[2], "ParseInt bits")
		if c, ok := s.Concrete(); ok {
			v, err := strconv.ParseInt(c, base, bits)
			if err != nil {
				return Tuple{normInt(uint64(v), 64, true), in.newError(CStr(err.Error()), nil)}, true
			}
			return Tuple{normInt(uint64(v), 64, true), Iface{}}, true
		}
		// ParseInt(FormatInt(x)) == x (decimal, 64 bit): trusted strconv contract
		if base == 10 && bits == 64 && len(s.p) == 1 && s.p[0].k == pkAtom && s.p[0].t.op == "uf" && s.p[0].t.name == smtName("fmtint") {
			return Tuple{in.fromTerm(s.p[0].t.args[0], types.Typ[types.Int64]), Iface{}}, true
		}
		// arbitrary text: either an error or some int64 (nondeterministic, a function of the text)
		okv := in.tt.UF("parseint_ok", BoolSort, s.SeqTerm(in.tt))
		if in.branch(boolVal(okv), "ParseInt "+fr.where()) {
			v := in.tt.UF("parseint_val", BV(64), s.SeqTerm(in.tt))
			return Tuple{v, Iface{}}, true
		}
		return Tuple{Int(0), in.newError(CStr("strconv.ParseInt: parsing: invalid syntax"), nil)}, true
	}
	I["strconv.Atoi"] = func(in *Interp, fr *frame, args []Value) (Value, bool) {
		c := in.needConcrete(fr, "Atoi", args[0])
		v, err := strconv.Atoi(c[0])
		if err != nil {
			return Tuple{Int(0), in.newError(CStr(err.Error()), nil)}, true
		}
		return Tuple{normInt(uint64(int64(v)), 64, true), Iface{}}, true
	}

	I["sort.Strings"] = func(in *Interp, fr *frame, args []Value) (Value, bool) {
		s := args[0].(Slice)
		if s.arr == nil || s.n < 2 {
			return nil, true
		}
		elems := (*s.arr)[s.off : s.off+s.n]
		allC := true
		for _, e := range elems {
			if !e.(Str).IsConcrete() {
				allC = false
			}
		}
		if allC {
			ss := make([]string, len(elems))
			for i, e := range elems {
				ss[i], _ = e.(Str).Concrete()
			}
			sort.Strings(ss)
			for i := range elems {
				elems[i] = CStr(ss[i])
			}
			return nil, true
		}
		// insertion sort driven by the (symbolic) order: forks on comparisons
		for i := 1; i < len(elems); i++ {
			for j := i; j > 0; j-- {
				lt := in.binopT(fr, 40 /*token.LSS*/, types.Typ[types.String], types.Typ[types.String], elems[j], elems[j-1])
				if !in.branch(lt, "sort.Strings") {
					break
				}
				elems[j], elems[j-1] = elems[j-1], elems[j]
			}
		}
		return nil, true
	}

	sortSlice := func(in *Interp, fr *frame, args []Value) (Value, bool) {
		it, _ := args[0].(Iface)
		sl, ok := it.V.(Slice)
		if !ok || sl.symLen != nil {
			in.unsupported("sort.Slice of %T", it.V)
		}
		if sl.arr == nil || sl.n < 2 {
			return nil, true
		}
		el := (*sl.arr)[sl.off : sl.off+sl.n]
		// insertion sort driven by the program's own less function (stable: ties keep their input order,
		// which is one of the outcomes the unstable library sort may produce)
		for i := 1; i < len(el); i++ {
			for j := i; j > 0; j-- {
				lt := in.call(fr, args[1], []Value{Int(j), Int(j - 1)}, nil, false)
				if !in.branch(lt, "sort.Slice less") {
					break
				}
				el[j], el[j-1] = el[j-1], el[j]
			}
		}
		return nil, true
	}
	// sort.Slice is not stable: after sorting, one pair of neighbours that compare equal may
	// come out in either order (one fork per call: "some tie was reordered")
	I["sort.Slice"] = func(in *Interp, fr *frame, args []Value) (Value, bool) {
		r, ok := sortSlice(in, fr, args)
		if !ok {
			return r, ok
		}
		it, _ := args[0].(Iface)
		sl, _ := it.V.(Slice)
		if sl.arr == nil || sl.n <= 12 {
			// up to 12 elements the library sorts by insertion (ties keep their order): findings
			// stay reproducible against the real library
			return r, true
		}
		el := (*sl.arr)[sl.off : sl.off+sl.n]
		// runs of neighbours that compare equal: any member of one run may come out first
		// (one run per call is reordered: "some tie group was permuted")
		i := 0
		for i < len(el) {
			j := i
			for j+1 < len(el) {
				lt := in.call(fr, args[1], []Value{Int(j), Int(j + 1)}, nil, false)
				if in.branch(lt, "sort.Slice tie test") {
					break
				}
				j++
			}
			if j > i {
				r := in.forkChoice(j-i+1, "sort.Slice: which of the elements that compare equal comes first")
				if r > 0 {
					moved := el[i+r]
					copy(el[i+1:i+r+1], el[i:i+r])
					el[i] = moved
					break
				}
			}
			i = j + 1
		}
		return r, true
	}
	I["sort.SliceStable"] = sortSlice
	I["sort.Search"] = func(in *Interp, fr *frame, args []Value) (Value, bool) {
		n := in.concreteInt(fr, args[0], "sort.Search n")
		i, j := 0, n
		for i < j {
			h := int(uint(i+j) >> 1)
			if !in.branch(in.call(fr, args[1], []Value{Int(h)}, nil, false), "sort.Search predicate") {
				i = h + 1
			} else {
				j = h
			}
		}
		return Int(i), true
	}

	// bytes.Buffer as a side object holding a Str
	buf := func(in *Interp, v Value) *Obj {
		p, _ := v.(*Value)
		if p == nil {
			return nil
		}
		o := in.side[p]
		if o == nil {
			o = in.newObj("buffer")
			in.side[p] = o
		}
		return o
	}
	bufWrite := func(in *Interp, fr *frame, args []Value) (Value, bool) {
		o := buf(in, args[0])
		if o == nil {
			fr.tpanic("nil-deref", in.runtimeError("invalid memory address or nil pointer dereference"))
		}
		s, ok := in.sliceToSym(fr, args[1])
		if !ok {
			in.unsupported("Buffer.Write of %T", args[1])
		}
		if p, _ := args[0].(*Value); p != nil && in.appended[p] {
			if n, ok := s.ConcreteLen(); !ok || n > 0 {
				in.staleChild = "a packet's content was written after the packet had been appended to its parent at " + fr.where()
			}
		}
		o.str = concatStr(o.str, s)
		return Tuple{s.LenValue(in.tt), Iface{}}, true
	}
	I["(*bytes.Buffer).Write"] = bufWrite
	I["(*bytes.Buffer).WriteString"] = bufWrite
	I["(*bytes.Buffer).WriteByte"] = func(in *Interp, fr *frame, args []Value) (Value, bool) {
		o := buf(in, args[0])
		o.str = concatStr(o.str, strFromValues([]Value{args[1]}))
		return Iface{}, true
	}
	I["(*bytes.Buffer).Bytes"] = func(in *Interp, fr *frame, args []Value) (Value, bool) {
		o := buf(in, args[0])
		if o == nil {
			fr.tpanic("nil-deref", in.runtimeError("invalid memory address or nil pointer dereference"))
		}
		return SymBytes{s: o.str}, true
	}
	I["(*bytes.Buffer).String"] = func(in *Interp, fr *frame, args []Value) (Value, bool) {
		o := buf(in, args[0])
		if o == nil {
			return CStr("<nil>"), true
		}
		return o.str, true
	}
	I["(*bytes.Buffer).Len"] = func(in *Interp, fr *frame, args []Value) (Value, bool) {
		o := buf(in, args[0])
		if o == nil {
			fr.tpanic("nil-deref", in.runtimeError("invalid memory address or nil pointer dereference"))
		}
		return o.str.LenValue(in.tt), true
	}
	I["(*bytes.Buffer).Truncate"] = func(in *Interp, fr *frame, args []Value) (Value, bool) {
		o := buf(in, args[0])
		n := in.concreteInt(fr, args[1], "Truncate")
		if n == 0 {
			o.str = Str{}
			return nil, true
		}
		p, ok := o.str.prefix(n)
		if !ok {
			in.unsupported("Buffer.Truncate(%d) of symbolic content", n)
		}
		o.str = p
		return nil, true
	}
	// strings.Builder: the same side-object model
	for _, mth := range []string{"Write", "WriteString", "WriteByte", "String", "Len"} {
		I["(*strings.Builder)."+mth] = I["(*bytes.Buffer)."+mth]
	}
	I["(*strings.Builder).Grow"] = func(in *Interp, fr *frame, args []Value) (Value, bool) { return nil, true }
	I["(*bytes.Buffer).Grow"] = I["(*strings.Builder).Grow"]
	wrRune := func(in *Interp, fr *frame, args []Value) (Value, bool) {
		r, ok := args[1].(Int)
		if !ok {
			in.unsupported("WriteRune of a symbolic rune")
		}
		o := buf(in, args[0])
		enc := string(rune(int32(r)))
		o.str = concatStr(o.str, CStr(enc))
		return Tuple{Int(len(enc)), Iface{}}, true
	}
	I["(*strings.Builder).WriteRune"] = wrRune
	I["(*bytes.Buffer).WriteRune"] = wrRune
	// reading drains the buffer (the decoded packet's Data is such a buffer)
	I["io.ReadAll"] = func(in *Interp, fr *frame, args []Value) (Value, bool) {
		it, ok := args[0].(Iface)
		if !ok || it.T == nil {
			fr.tpanic("nil-deref", in.runtimeError("invalid memory address or nil pointer dereference"))
		}
		p, _ := it.V.(*Value)
		if p == nil {
			if o, ok := it.V.(*Obj); ok && o.Kind == "buffer" {
				out := o.str
				o.str = Str{}
				return Tuple{SymBytes{s: out}, Iface{}}, true
			}
			in.unsupported("io.ReadAll of %v", it.T)
		}
		o := in.side[p]
		if o == nil || o.Kind != "buffer" {
			in.unsupported("io.ReadAll of %v", it.T)
		}
		out := o.str
		o.str = Str{}
		return Tuple{SymBytes{s: out}, Iface{}}, true
	}
	I["(*bytes.Buffer).Reset"] = func(in *Interp, fr *frame, args []Value) (Value, bool) {
		buf(in, args[0]).str = Str{}
		return nil, true
	}
	I["(*strings.Builder).Reset"] = I["(*bytes.Buffer).Reset"]
	newBuf := func(in *Interp, fr *frame, args []Value) (Value, bool) {
		s, ok := in.sliceToSym(fr, args[0])
		if !ok {
			in.unsupported("bytes.NewBuffer of %T", args[0])
		}
		return in.newBufferCell(s), true
	}
	I["bytes.NewBuffer"] = newBuf
	I["bytes.NewBufferString"] = newBuf
	I["bytes.NewReader"] = func(in *Interp, fr *frame, args []Value) (Value, bool) {
		s, ok := in.sliceToSym(fr, args[0])
		if !ok {
			in.unsupported("bytes.NewReader of %T", args[0])
		}
		cell := new(Value)
		*cell = Struct{}
		o := in.newObj("bytesreader")
		if sl, ok := args[0].(Slice); ok && in.drained[sl.arr] != nil {
			o.items = in.drained[sl.arr] // frames drained from a read-ahead buffer
		}
		o.str = s
		in.side[cell] = o
		return cell, true
	}

	// encoding/binary for the fixed layouts of sid.go
	I["encoding/binary.Write"] = binaryWrite
	I["encoding/binary.Read"] = binaryRead

	// reflect-free nil test used by option.go (semantics of gldap.isNil)
	I["reflect.TypeOf"] = func(in *Interp, fr *frame, args []Value) (Value, bool) {
		o := in.newObj("rtype")
		o.F["v"] = args[0]
		return in.ifaceOf(o), true
	}
	I["reflect.ValueOf"] = func(in *Interp, fr *frame, args []Value) (Value, bool) {
		o := in.newObj("rvalue")
		o.F["v"] = args[0]
		// reflect.Value is a struct; represent as a 3-field struct whose first field holds the obj
		return Struct{o, (*Value)(nil), Int(0)}, true
	}
	I["(reflect.Value).IsNil"] = func(in *Interp, fr *frame, args []Value) (Value, bool) {
		o := args[0].(Struct)[0].(*Obj)
		it := o.F["v"].(Iface)
		return isNilValue(it.V), true
	}
	I["(reflect.Value).Interface"] = func(in *Interp, fr *frame, args []Value) (Value, bool) {
		o := args[0].(Struct)[0].(*Obj)
		return o.F["v"], true
	}
	I["(reflect.Value).Kind"] = func(in *Interp, fr *frame, args []Value) (Value, bool) {
		o := args[0].(Struct)[0].(*Obj)
		return Int(reflectKind(o.F["v"])), true
	}

	I["time.Now"] = func(in *Interp, fr *frame, args []Value) (Value, bool) {
		// an instant that is not the zero Time (ext = 1 second): SetDeadline(time.Time{})
		// clears a deadline, SetDeadline(time.Now()...) sets one that has expired
		z := in.zero(fr.curInstr.(ssa.Value).Type())
		// wall = the clock epoch of the reading (vTimePasses: "a long time goes by", longer than
		// any configured timeout): now+d taken in an earlier epoch has expired in a later one
		if st, ok := z.(Struct); ok && len(st) >= 2 {
			st[0] = Int(in.clockEpoch)
			st[1] = Int(1)
		}
		return z, true
	}
	I["regexp.MustCompile"] = func(in *Interp, fr *frame, args []Value) (Value, bool) {
		c := in.needConcrete(fr, "regexp.MustCompile", args[0])
		cell := new(Value)
		*cell = Struct{}
		o := in.newObj("regexp")
		o.str = CStr(c[0])
		in.side[cell] = o
		return cell, true
	}
	I["(*regexp.Regexp).FindAllString"] = func(in *Interp, fr *frame, args []Value) (Value, bool) {
		o := in.sideObj(args[0], "regexp")
		pat, _ := o.str.Concrete()
		c := in.needConcrete(fr, "Regexp.FindAllString", args[1])
		n := in.concreteInt(fr, args[2], "FindAllString n")
		re, err := regexp.Compile(pat)
		if err != nil {
			in.unsupported("regexp %q", pat)
		}
		res := re.FindAllString(c[0], n)
		if res == nil {
			return Slice{}, true
		}
		return strSliceValue(res), true
	}
	// timers: a channel that becomes ready when "enough time has passed" (see selectOp)
	newTimerChan := func(in *Interp) *Chan {
		in.chanSeq++
		o := in.newObj("timer")
		o.F["state"] = "pending"
		return &Chan{id: 100000 + in.chanSeq, timer: o}
	}
	I["time.After"] = func(in *Interp, fr *frame, args []Value) (Value, bool) {
		return newTimerChan(in), true
	}
	I["time.NewTimer"] = func(in *Interp, fr *frame, args []Value) (Value, bool) {
		tt := in.namedType("time", "Timer")
		cell := new(Value)
		st := in.zero(tt).(Struct)
		ch := newTimerChan(in)
		st[structFieldIndex(tt.Underlying().(*types.Struct), "C")] = ch
		*cell = st
		in.side[cell] = ch.timer
		return cell, true
	}
	I["(*time.Timer).Stop"] = func(in *Interp, fr *frame, args []Value) (Value, bool) {
		o := in.sideObj(args[0], "timer")
		was, _ := o.F["state"].(string)
		if was == "pending" {
			o.F["state"] = "stopped"
			return true, true
		}
		return false, true
	}
	I["(*time.Timer).Reset"] = func(in *Interp, fr *frame, args []Value) (Value, bool) {
		o := in.sideObj(args[0], "timer")
		was, _ := o.F["state"].(string)
		o.F["state"] = "pending"
		return was == "pending", true
	}
	I["runtime/debug.Stack"] = func(in *Interp, fr *frame, args []Value) (Value, bool) {
		return SymBytes{s: CStr("goroutine 1 [running]:\n(stack omitted)\n")}, true
	}
	// runtime.Goexit: the goroutine's deferred calls run, recover() does not stop it, and
	// the goroutine ends without taking the process down
	I["runtime.Goexit"] = func(in *Interp, fr *frame, args []Value) (Value, bool) {
		in.emit("goexit")
		fr.tpanic("goexit", CStr("runtime.Goexit"))
		return nil, true
	}
	I["runtime/debug.PrintStack"] = func(in *Interp, fr *frame, args []Value) (Value, bool) { return nil, true }
	I["time.Sleep"] = func(in *Interp, fr *frame, args []Value) (Value, bool) {
		in.preempt()
		return nil, true
	}
	I["(time.Time).AddDate"] = func(in *Interp, fr *frame, args []Value) (Value, bool) {
		return args[0], true
	}
	I["net.IPv4"] = func(in *Interp, fr *frame, args []Value) (Value, bool) {
		arr := make([]Value, 16)
		for i := range arr {
			arr[i] = Int(0)
		}
		for i := 0; i < 4 && i < len(args); i++ {
			arr[12+i] = args[i]
		}
		return Slice{arr: &arr, n: 16, cp: 16}, true
	}
	I["(time.Time).Add"] = func(in *Interp, fr *frame, args []Value) (Value, bool) {
		// now + d with d > 0 is "a future instant" (ext = 2); everything else keeps its class
		st, ok := args[0].(Struct)
		if ok && len(st) >= 2 {
			if e, ok := st[1].(Int); ok && e == 1 {
				if d, ok := args[1].(Int); !ok || int64(d) > 0 {
					out := append(Struct{}, st...)
					out[1] = Int(2)
					return out, true
				}
			}
		}
		return args[0], true
	}
	I["unicode/utf8.Valid"] = func(in *Interp, fr *frame, args []Value) (Value, bool) {
		s, ok := in.sliceToSym(fr, args[0])
		if !ok {
			return nil, false
		}
		if c, ok := s.Concrete(); ok {
			return strings.ToValidUTF8(c, "�") == c, true
		}
		return boolVal(in.tt.UF("utf8_valid", BoolSort, s.SeqTerm(in.tt))), true
	}
}

func reflectKind(v Value) int {
	it, ok := v.(Iface)
	if !ok || it.T == nil {
		return 0
	}
	switch it.T.Underlying().(type) {
	case *types.Pointer:
		return 22
	case *types.Map:
		return 21
	case *types.Slice:
		return 23
	case *types.Chan:
		return 18
	case *types.Array:
		return 17
	case *types.Struct:
		return 25
	case *types.Interface:
		return 20
	case *types.Signature:
		return 19
	case *types.Basic:
		if isString(it.T) {
			return 24
		}
		return 2
	}
	return 0
}

// equalFold: ASCII case folding over strings of concrete length (after
// forking on the symbolic length up to the harness bound).
func (in *Interp) equalFold(fr *frame, a, b Str) Value {
	tt := in.tt
	fix := func(s Str) Str {
		if _, ok := s.ConcreteLen(); ok {
			return s
		}
		// concretise the length of each atom up to cfg.FoldMax
		var out []piece
		for _, p := range s.p {
			if p.k != pkAtom {
				out = append(out, p)
				continue
			}
			n := in.concretize(p.n, "EqualFold length")
			for i := 0; i < n; i++ {
				if p.t.op == "var" && i < byteViewMax {
					out = append(out, piece{k: pkUnit, t: in.atomByte(p.t, i)})
				} else {
					out = append(out, piece{k: pkUnit, t: tt.SeqNth(p.t, tt.IntConst(int64(i)))})
				}
			}
		}
		return Str{p: out}
	}
	a, b = fix(a), fix(b)
	va, _ := valuesOfStr(a)
	vb, _ := valuesOfStr(b)
	if len(va) != len(vb) {
		return false
	}
	fold := func(v Value) *Term {
		t := in.byteTerm(v)
		isUp := tt.And(tt.BVCmp("bvuge", t, tt.BVConst('A', 8)), tt.BVCmp("bvule", t, tt.BVConst('Z', 8)))
		return tt.Ite(isUp, tt.BVOp("bvadd", t, tt.BVConst(32, 8)), t)
	}
	conj := []*Term{}
	for i := range va {
		// non-ASCII bytes: simple folding treats bytes >= 0x80 as themselves;
		// multi-byte Unicode folding (e.g. the Kelvin sign) is outside the model
		conj = append(conj, tt.Eq(fold(va[i]), fold(vb[i])))
	}
	return boolVal(tt.And(conj...))
}

func (in *Interp) writeTo(fr *frame, w Value, s Str) {
	it, ok := w.(Iface)
	if !ok || it.T == nil {
		return
	}
	switch x := it.V.(type) {
	case *Value:
		if x != nil && (it.T.String() == "*bytes.Buffer" || it.T.String() == "*strings.Builder") {
			o := in.sideObj(x, "buffer")
			o.str = concatStr(o.str, s)
			return
		}
		if o := in.side[x]; o != nil && o.Kind == "buffer" {
			o.str = concatStr(o.str, s)
			return
		}
		if x != nil {
			if o, ok := (*x).(*Obj); ok && o.Kind == "osfile" {
				return
			}
			if it.T.String() == "*os.File" {
				return
			}
		}
		if x != nil {
			if o := in.side[x]; o != nil && o.Kind == "bufwriter" {
				in.unsupported("fmt.Fprintf to a bufio.Writer")
			}
		}
	case *Obj:
		if x.Kind == "capture" || x.Kind == "buffer" {
			x.str = concatStr(x.str, s)
			return
		}
		if x.Kind == "opaque" || x.Kind == "logger" {
			return
		}
		in.unsupported("formatted write to a %s object", x.Kind)
	}
	in.unsupported("formatted write to %v", it.T)
}

// ---- encoding/binary (sid.go layouts only) ----

func binaryOrder(v Value) string {
	it := v.(Iface)
	if it.T != nil && strings.Contains(it.T.String(), "bigEndian") {
		return "big"
	}
	return "little"
}

func (in *Interp) packInt(v Value, w int, order string) []Value {
	n := w / 8
	out := make([]Value, n)
	for i := 0; i < n; i++ {
		var b Value
		shift := uint(8 * i) // little-endian byte i
		switch x := v.(type) {
		case Int:
			b = Int((uint64(x) >> shift) & 0xff)
		case *Term:
			b = in.tt.Extract(int(shift)+7, int(shift), x)
		}
		if order == "little" {
			out[i] = b
		} else {
			out[n-1-i] = b
		}
	}
	return out
}

func binaryWrite(in *Interp, fr *frame, args []Value) (Value, bool) {
	order := binaryOrder(args[1])
	data := args[2].(Iface)
	var bytesOut []Value
	var enc func(t types.Type, v Value) bool
	enc = func(t types.Type, v Value) bool {
		switch u := t.Underlying().(type) {
		case *types.Basic:
			if !isInteger(t) {
				return false
			}
			w, _ := intInfo(t)
			bytesOut = append(bytesOut, in.packInt(v, w, order)...)
			return true
		case *types.Array:
			for _, e := range v.(Array) {
				if !enc(u.Elem(), e) {
					return false
				}
			}
			return true
		case *types.Slice:
			s := v.(Slice)
			if s.symLen != nil {
				return false
			}
			for i := 0; i < s.n; i++ {
				if !enc(u.Elem(), (*s.arr)[s.off+i]) {
					return false
				}
			}
			return true
		case *types.Pointer:
			p := v.(*Value)
			return enc(u.Elem(), *p)
		}
		return false
	}
	if !enc(data.T, data.V) {
		in.unsupported("binary.Write of %v", data.T)
	}
	in.writeTo(fr, args[0], strFromValues(bytesOut))
	return Iface{}, true
}

func binaryRead(in *Interp, fr *frame, args []Value) (Value, bool) {
	order := binaryOrder(args[1])
	rd := args[0].(Iface)
	cell, _ := rd.V.(*Value)
	o := in.side[cell]
	if o == nil || o.Kind != "bytesreader" {
		in.unsupported("binary.Read from %v", rd.T)
	}
	data := args[2].(Iface)
	// compute size
	var size func(t types.Type, v Value) int
	size = func(t types.Type, v Value) int {
		switch u := t.Underlying().(type) {
		case *types.Basic:
			w, _ := intInfo(t)
			return w / 8
		case *types.Array:
			return int(u.Len()) * size(u.Elem(), nil)
		case *types.Slice:
			s := v.(Slice)
			return s.n * size(u.Elem(), nil)
		case *types.Pointer:
			p := v.(*Value)
			return size(u.Elem(), *p)
		}
		in.unsupported("binary.Read into %v", t)
		return 0
	}
	need := size(data.T, data.V)
	avail, okLen := o.str.ConcreteLen()
	if !okLen {
		// fork on whether enough bytes are available
		enough := in.tt.BVCmp("bvuge", o.str.LenTerm(in.tt), in.tt.BVConst(uint64(need), 64))
		if !in.branch(boolVal(enough), "binary.Read length") {
			return in.newError(CStr("unexpected EOF"), in.externalGlobalByName("io.ErrUnexpectedEOF")), true
		}
	} else if avail < need {
		if avail == 0 && need > 0 {
			return in.externalGlobalByName("io.EOF"), true
		}
		o.str = Str{}
		return in.externalGlobalByName("io.ErrUnexpectedEOF"), true
	}
	if need == 0 {
		return Iface{}, true
	}
	pos := 0
	getByte := func() Value {
		var b Value
		if v, ok := o.str.byteAt(pos); ok {
			b = v
		} else {
			b = in.tt.SeqNth(o.str.SeqTerm(in.tt), in.tt.IntConst(int64(pos)))
		}
		pos++
		return b
	}
	unpack := func(t types.Type) Value {
		w, signed := intInfo(t)
		n := w / 8
		bs := make([]Value, n)
		for i := 0; i < n; i++ {
			bs[i] = getByte()
		}
		// assemble most significant first
		var acc *Term
		allC := true
		var cv uint64
		for i := 0; i < n; i++ {
			idx := i
			if order == "little" {
				idx = n - 1 - i
			}
			b := bs[idx]
			if bi, ok := b.(Int); ok {
				cv = cv<<8 | uint64(bi)
			} else {
				allC = false
			}
			bt := in.byteTerm(b)
			if acc == nil {
				acc = bt
			} else {
				acc = in.tt.Concat(acc, bt)
			}
		}
		if allC {
			return normInt(cv, w, signed)
		}
		return acc
	}
	var dec func(t types.Type, p *Value)
	dec = func(t types.Type, p *Value) {
		switch u := t.Underlying().(type) {
		case *types.Basic:
			*p = unpack(t)
		case *types.Array:
			a := (*p).(Array)
			for i := range a {
				dec(u.Elem(), &a[i])
			}
		case *types.Slice:
			s := (*p).(Slice)
			for i := 0; i < s.n; i++ {
				dec(u.Elem(), &(*s.arr)[s.off+i])
			}
		}
	}
	pt := data.T.Underlying().(*types.Pointer)
	dec(pt.Elem(), data.V.(*Value))
	rest, ok := o.str.sliceFrom(pos)
	if !ok {
		L := o.str.LenTerm(in.tt)
		nl := in.tt.BVOp("bvsub", L, in.tt.BVConst(uint64(pos), 64))
		rest = in.atomFromSeq(in.tt.SeqExtract(o.str.SeqTerm(in.tt), in.tt.IntConst(int64(pos)), in.tt.BV2Nat(nl)), nl)
	}
	o.str = rest
	return Iface{}, true
}

func (in *Interp) externalGlobalByName(name string) Value {
	if v, ok := in.extGlobals[name]; ok {
		return v
	}
	var v Value
	switch name {
	case "io.EOF":
		v = in.newError(CStr("EOF"), nil)
	case "io.ErrUnexpectedEOF":
		v = in.newError(CStr("unexpected EOF"), nil)
	}
	in.extGlobals[name] = v
	return v
}

// ifaceOfStr boxes a string value as interface{} (for the formatting helpers).
func (in *Interp) ifaceOfStr(s Str) Value { return Iface{T: types.Typ[types.String], V: s} }
