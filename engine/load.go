package main

// Front end: loads /repo's current working tree with the harness overlay and
// builds SSA for the whole import closure.

import (
	"fmt"
	"go/types"
	"os"
	"path/filepath"
	"sort"
	"strings"

	"golang.org/x/tools/go/packages"
	"golang.org/x/tools/go/ssa"
	"golang.org/x/tools/go/ssa/ssautil"
)

type Program struct {
	Prog    *ssa.Program
	Pkgs    map[string]*ssa.Package // by import path
	Gldap   *ssa.Package
	TestDir *ssa.Package
	Ber     *ssa.Package
	Overlay map[string]string // virtual path -> real path
	RepoDir string
}

const (
	gldapPath   = "github.com/jimlambrt/gldap"
	testdirPath = "github.com/jimlambrt/gldap/testdirectory"
	berPath     = "github.com/go-asn1-ber/asn1-ber"
)

// harnessOverlay maps harness sources under verifDir/harness/{gldap,testdirectory}
// to virtual files inside the repo's package directories.
func harnessOverlay(repo, verifDir string) (map[string][]byte, map[string]string, error) {
	ov := map[string][]byte{}
	paths := map[string]string{}
	for _, sub := range []struct{ src, dst string }{
		{"harness/gldap", ""},
		{"harness/testdirectory", "testdirectory"},
	} {
		dir := filepath.Join(verifDir, sub.src)
		ents, err := os.ReadDir(dir)
		if err != nil {
			continue
		}
		for _, e := range ents {
			if e.IsDir() || !strings.HasSuffix(e.Name(), ".go") {
				continue
			}
			if strings.HasSuffix(e.Name(), "_test.go") {
				continue // native replay drivers; not part of the symbolic load
			}
			b, err := os.ReadFile(filepath.Join(dir, e.Name()))
			if err != nil {
				return nil, nil, err
			}
			v := filepath.Join(repo, sub.dst, "zz_verif_"+e.Name())
			ov[v] = b
			paths[v] = filepath.Join(dir, e.Name())
		}
	}
	return ov, paths, nil
}

func LoadProgram(repo, verifDir string) (*Program, error) {
	ov, paths, err := harnessOverlay(repo, verifDir)
	if err != nil {
		return nil, err
	}
	cfg := &packages.Config{
		Mode:       packages.LoadAllSyntax,
		Dir:        repo,
		Overlay:    ov,
		BuildFlags: []string{"-tags=verif", "-mod=mod"},
		Env:        append(os.Environ(), "GOFLAGS=-mod=mod", "GOPROXY=off", "GOSUMDB=off", "GOTOOLCHAIN=local"),
	}
	pkgs, err := packages.Load(cfg, gldapPath, testdirPath)
	if err != nil {
		return nil, err
	}
	var errs []string
	packages.Visit(pkgs, nil, func(p *packages.Package) {
		for _, e := range p.Errors {
			errs = append(errs, e.Error())
		}
	})
	if len(errs) > 0 {
		sort.Strings(errs)
		if len(errs) > 20 {
			errs = errs[:20]
		}
		return nil, fmt.Errorf("load errors:\n%s", strings.Join(errs, "\n"))
	}
	prog, _ := ssautil.AllPackages(pkgs, ssa.InstantiateGenerics)
	prog.Build()
	P := &Program{Prog: prog, Pkgs: map[string]*ssa.Package{}, Overlay: paths, RepoDir: repo}
	for _, p := range prog.AllPackages() {
		P.Pkgs[p.Pkg.Path()] = p
	}
	P.Gldap = P.Pkgs[gldapPath]
	P.TestDir = P.Pkgs[testdirPath]
	P.Ber = P.Pkgs[berPath]
	if P.Gldap == nil || P.Ber == nil {
		return nil, fmt.Errorf("gldap or asn1-ber package missing from SSA program")
	}
	return P, nil
}

// interpreted reports whether functions of this package are executed from SSA.
func (P *Program) interpreted(pkg *types.Package) bool {
	if pkg == nil {
		return false
	}
	switch pkg.Path() {
	case gldapPath, testdirPath, berPath:
		return true
	case "sync/atomic":
		return true // typed wrappers (atomic.Int32 ...) over the function intrinsics
	case "encoding/binary", "math/bits":
		return true // pure Go; binary.Read / binary.Write stay intrinsics
	}
	return false
}

func (P *Program) LookupFunc(pkg *ssa.Package, name string) *ssa.Function {
	if f := pkg.Func(name); f != nil {
		return f
	}
	return nil
}
