package main

import (
	"encoding/json"
	"flag"
	"fmt"
	"os"
	"sort"
	"strings"
)

func main() {
	if len(os.Args) < 2 {
		fmt.Fprintln(os.Stderr, "usage: gosym run|check|selftest ...")
		os.Exit(2)
	}
	switch os.Args[1] {
	case "run":
		cmdRun(os.Args[2:])
	case "check":
		os.Exit(cmdCheck(os.Args[2:]))
	default:
		fmt.Fprintln(os.Stderr, "unknown command", os.Args[1])
		os.Exit(2)
	}
}

func envOr(k, d string) string {
	if v := os.Getenv(k); v != "" {
		return v
	}
	return d
}

// cmdRun explores one harness and prints a summary (development aid).
func cmdRun(args []string) {
	fs := flag.NewFlagSet("run", flag.ExitOnError)
	repo := fs.String("repo", envOr("VERIF_REPO", "/repo"), "repository")
	verif := fs.String("verif", envOr("VERIF_DIR", "/verif"), "verif dir")
	pkg := fs.String("pkg", "gldap", "gldap|testdirectory")
	workers := fs.Int("j", 14, "workers")
	maxPaths := fs.Int("max", 200000, "max paths")
	verbose := fs.Bool("v", false, "print paths")
	models := fs.Bool("models", false, "models for every path")
	jsonOut := fs.String("json", "", "write results json")
	opaque := fs.Bool("opaque", false, "treat crypto/testify packages as opaque (testdirectory TLS plumbing)")
	fs.Parse(args)
	P, err := LoadProgram(*repo, *verif)
	if err != nil {
		fmt.Fprintln(os.Stderr, "load:", err)
		os.Exit(2)
	}
	for _, h := range fs.Args() {
		cfg := defaultCfg(h)
		cfg.Pkg = *pkg
		cfg.Workers = *workers
		cfg.MaxPaths = *maxPaths
		cfg.WantModels = *models
		if *opaque {
			cfg.OpaquePkgs = tdOpaque
			cfg.ExtraPkgs["golang.org/x/exp/slices"] = true
		}
		res, err := Explore(P, cfg)
		if err != nil {
			fmt.Fprintln(os.Stderr, "explore:", err)
			os.Exit(2)
		}
		printSummary(res, *verbose)
		if *jsonOut != "" {
			b, _ := json.MarshalIndent(res.Paths, "", " ")
			os.WriteFile(*jsonOut, b, 0o644)
		}
	}
}

func printSummary(res *ExploreResult, verbose bool) {
	out := map[string]int{}
	viol := map[string]int{}
	oblig := map[string]int{}
	reach := map[string]int{}
	details := map[string]int{}
	for _, p := range res.Paths {
		out[p.Outcome]++
		if p.Outcome != "return" && p.Outcome != "assume" {
			details[p.Outcome+": "+p.Detail]++
		}
		for _, v := range p.Violations {
			viol[v.Key]++
		}
		for _, o := range p.Oblig {
			oblig[o.Verdict]++
		}
		for _, r := range p.Reached {
			reach[r]++
		}
		if verbose {
			fmt.Printf("  path %v -> %s %s\n", p.Decisions, p.Outcome, p.Detail)
			for _, e := range p.Events {
				fmt.Printf("      %s %v\n", e.Kind, e.Args)
			}
			for _, v := range p.Violations {
				fmt.Printf("      VIOL %s: %s model=%v\n", v.Key, v.Detail, v.Model)
			}
		}
	}
	fmt.Printf("harness %s: %d paths in %.1fs; outcomes=%v obligations=%v reach=%v\n", res.Cfg.Name, len(res.Paths), res.WallS, out, oblig, reach)
	fmt.Printf("  solver: queries=%d sat=%d unsat=%d unknown=%d err=%d time=%.1fs\n", gQueries, gSat, gUnsat, gUnknown, gSolverErr, float64(gSolverNs)/1e9)
	if forkStat != nil {
		type kv struct {
			k string
			v int
		}
		var l []kv
		for k, v := range forkStat {
			l = append(l, kv{k, v})
		}
		sort.Slice(l, func(i, j int) bool { return l[i].v > l[j].v })
		for i, e := range l {
			if i > 15 {
				break
			}
			fmt.Printf("  forks %6d  %s\n", e.v, e.k)
		}
	}
	keys := []string{}
	for k := range viol {
		keys = append(keys, k)
	}
	sort.Strings(keys)
	for _, k := range keys {
		fmt.Printf("  violation %s x%d\n", k, viol[k])
	}
	dk := []string{}
	for k := range details {
		dk = append(dk, k)
	}
	sort.Strings(dk)
	for _, k := range dk {
		s := k
		if len(s) > 400 && !strings.Contains(s, "engine-error") {
			s = s[:400]
		}
		fmt.Printf("  %s x%d\n", s, details[k])
	}
}
