package main

import (
	"fmt"
	"go/token"
	"go/types"
	"math"
	"unicode/utf8"

	"golang.org/x/tools/go/ssa"
)

func intInfo(t types.Type) (w int, signed bool) {
	b, ok := t.Underlying().(*types.Basic)
	if !ok {
		panic(fmt.Sprintf("intInfo: not basic: %v", t))
	}
	switch b.Kind() {
	case types.Int8:
		return 8, true
	case types.Int16:
		return 16, true
	case types.Int32:
		return 32, true
	case types.Int64, types.Int, types.UntypedInt, types.UntypedRune:
		return 64, true
	case types.Uint8:
		return 8, false
	case types.Uint16:
		return 16, false
	case types.Uint32:
		return 32, false
	case types.Uint64, types.Uint, types.Uintptr:
		return 64, false
	}
	panic(fmt.Sprintf("intInfo: not integer: %v", t))
}

func isInteger(t types.Type) bool {
	b, ok := t.Underlying().(*types.Basic)
	return ok && b.Info()&types.IsInteger != 0
}
func isString(t types.Type) bool {
	b, ok := t.Underlying().(*types.Basic)
	return ok && b.Info()&types.IsString != 0
}
func isBool(t types.Type) bool {
	b, ok := t.Underlying().(*types.Basic)
	return ok && b.Info()&types.IsBoolean != 0
}
func isFloat(t types.Type) bool {
	b, ok := t.Underlying().(*types.Basic)
	return ok && b.Info()&types.IsFloat != 0
}

func normInt(v uint64, w int, signed bool) Int {
	if w >= 64 {
		return Int(v)
	}
	if signed {
		return Int(uint64(sext(v&mask(w), w)))
	}
	return Int(v & mask(w))
}

// toTerm converts a scalar value of static type t to a term.
func (in *Interp) toTerm(v Value, t types.Type) *Term {
	switch x := v.(type) {
	case *Term:
		return x
	case bool:
		return in.tt.Bool(x)
	case Int:
		w, _ := intInfo(t)
		return in.tt.BVConst(uint64(x), w)
	}
	panic(fmt.Sprintf("toTerm: %T (%v)", v, t))
}

// fromTerm simplifies constant terms back to concrete values.
func (in *Interp) fromTerm(t *Term, typ types.Type) Value {
	if t.IsConst() {
		switch t.sort.K {
		case SBool:
			return t.cval == 1
		case SBV:
			_, signed := intInfo(typ)
			return normInt(t.cval, t.sort.W, signed)
		}
	}
	return t
}

func (in *Interp) boolTerm(v Value) *Term {
	switch x := v.(type) {
	case bool:
		return in.tt.Bool(x)
	case *Term:
		return x
	}
	panic(fmt.Sprintf("boolTerm: %T", v))
}

func boolVal(t *Term) Value {
	if t.IsConst() {
		return t.cval == 1
	}
	return t
}

func (in *Interp) notVal(v Value) Value {
	switch x := v.(type) {
	case bool:
		return !x
	case *Term:
		return boolVal(in.tt.Not(x))
	}
	panic("notVal")
}

// ------------------------------------------------------------------

func (in *Interp) unop(fr *frame, x *ssa.UnOp) Value {
	v := fr.get(x.X)
	switch x.Op {
	case token.MUL:
		p, _ := v.(*Value)
		if p == nil {
			fr.tpanic("nil-deref", in.runtimeError("invalid memory address or nil pointer dereference"))
		}
		return in.load(p)
	case token.NOT:
		return in.notVal(v)
	case token.SUB:
		switch y := v.(type) {
		case Int:
			w, s := intInfo(x.Type())
			return normInt(-uint64(y), w, s)
		case float64:
			return -y
		case *Term:
			return in.tt.BVNeg(y)
		}
	case token.XOR:
		switch y := v.(type) {
		case Int:
			w, s := intInfo(x.Type())
			return normInt(^uint64(y), w, s)
		case *Term:
			return in.tt.BVNot(y)
		}
	case token.ARROW:
		if ch, ok := v.(*Chan); ok && ch != nil && ch.timer != nil {
			// <-timer.C: returns once the timer has fired (time passes when nothing else can run)
			c := ch
			self := in.curTid()
			in.block("timer recv", func() bool {
				st, _ := c.timer.F["state"].(string)
				if st == "fired" {
					return true
				}
				if st == "pending" && !in.inCond {
					in.inCond = true
					stuck := !in.othersRunnable(self)
					in.inCond = false
					return stuck
				}
				return false
			})
			c.timer.F["state"] = "fired"
			if x.CommaOk {
				return Tuple{in.zero(x.Type().(*types.Tuple).At(0).Type()), true}
			}
			return in.zero(x.Type())
		}
		if ch, ok := v.(*Chan); ok && ch != nil && ch.ctx == nil && ch.cp > 0 {
			// buffered channel: take the oldest element (or the zero value once closed and drained)
			c := ch
			in.maybePreempt("chan")
			in.block("chan recv", func() bool { return len(c.queue) > 0 || c.closed })
			var val Value
			okv := false
			if len(c.queue) > 0 {
				val, okv = c.queue[0], true
				c.queue = c.queue[1:]
				in.emit("chan.recv", fmt.Sprintf("chan#%d", c.id))
			}
			if x.CommaOk {
				if !okv {
					val = in.zero(x.Type().(*types.Tuple).At(0).Type())
				}
				return Tuple{val, okv}
			}
			if !okv {
				val = in.zero(x.Type())
			}
			return val
		}
		if ch, ok := v.(*Chan); ok && ch != nil && ch.ctx == nil {
			c := ch
			in.block("chan recv", func() bool { return c.closed })
			if x.CommaOk {
				return Tuple{in.zero(x.Type().(*types.Tuple).At(0).Type()), false}
			}
			return in.zero(x.Type())
		}
		if ch, ok := v.(*Chan); ok && ch != nil && ch.ctx != nil {
			if in.ctxCancelled(fr, ch.ctx) {
				if x.CommaOk {
					return Tuple{in.zero(x.Type().(*types.Tuple).At(0).Type()), false}
				}
				return in.zero(x.Type())
			}
			ctx := ch.ctx
			in.block("ctx.Done", func() bool { return in.ctxCancelled(fr, ctx) })
			if x.CommaOk {
				return Tuple{in.zero(x.Type().(*types.Tuple).At(0).Type()), false}
			}
			return in.zero(x.Type())
		}
		in.unsupported("channel receive at %s", fr.where())
	}
	panic(fmt.Sprintf("unop %v on %T", x.Op, v))
}

func (in *Interp) binop(fr *frame, op token.Token, xt types.Type, x, y Value) Value {
	return in.binopT(fr, op, xt, xt, x, y)
}

func cmpOp(op token.Token, signed bool) string {
	switch op {
	case token.LSS:
		if signed {
			return "bvslt"
		}
		return "bvult"
	case token.LEQ:
		if signed {
			return "bvsle"
		}
		return "bvule"
	case token.GTR:
		if signed {
			return "bvsgt"
		}
		return "bvugt"
	case token.GEQ:
		if signed {
			return "bvsge"
		}
		return "bvuge"
	}
	return ""
}

func (in *Interp) binopT(fr *frame, op token.Token, xt, yt types.Type, x, y Value) Value {
	tt := in.tt
	switch {
	case isInteger(xt):
		w, signed := intInfo(xt)
		xi, xc := x.(Int)
		yi, yc := y.(Int)
		if op == token.SHL || op == token.SHR {
			// shift: y may have a different type
			if xc && yc {
				_, ys := intInfo(yt)
				if ys && int64(yi) < 0 {
					fr.tpanic("shift", in.runtimeError("negative shift amount"))
				}
				sh := uint64(yi)
				var r uint64
				if op == token.SHL {
					if sh >= uint64(w) {
						r = 0
					} else {
						r = uint64(xi) << sh
					}
				} else if signed {
					if sh >= 64 {
						sh = 63
					}
					r = uint64(int64(xi) >> sh)
				} else {
					if sh >= 64 {
						r = 0
					} else {
						r = (uint64(xi) & mask(w)) >> sh
					}
				}
				return normInt(r, w, signed)
			}
			a := in.toTerm(x, xt)
			b := in.toTerm(y, yt)
			yw, _ := intInfo(yt)
			// bring the shift count to width w, saturating
			var cnt *Term
			if yw == w {
				cnt = b
			} else if yw < w {
				cnt = tt.ZeroExt(b, w)
			} else {
				big := tt.BVCmp("bvuge", b, tt.BVConst(uint64(w), yw))
				cnt = tt.Ite(big, tt.BVConst(uint64(w), w), tt.Extract(w-1, 0, b))
			}
			switch {
			case op == token.SHL:
				return in.fromTerm(tt.BVOp("bvshl", a, cnt), xt)
			case signed:
				return in.fromTerm(tt.BVOp("bvashr", a, cnt), xt)
			default:
				return in.fromTerm(tt.BVOp("bvlshr", a, cnt), xt)
			}
		}
		if xc && yc {
			a, b := uint64(xi), uint64(yi)
			switch op {
			case token.ADD:
				return normInt(a+b, w, signed)
			case token.SUB:
				return normInt(a-b, w, signed)
			case token.MUL:
				return normInt(a*b, w, signed)
			case token.QUO, token.REM:
				if b == 0 {
					fr.tpanic("divide", in.runtimeError("integer divide by zero"))
				}
				if signed {
					sa, sb := int64(xi), int64(yi)
					if sb == -1 {
						if op == token.QUO {
							return normInt(uint64(-sa), w, true)
						}
						return Int(0)
					}
					if op == token.QUO {
						return normInt(uint64(sa/sb), w, true)
					}
					return normInt(uint64(sa%sb), w, true)
				}
				if op == token.QUO {
					return normInt(a/b, w, false)
				}
				return normInt(a%b, w, false)
			case token.AND:
				return normInt(a&b, w, signed)
			case token.OR:
				return normInt(a|b, w, signed)
			case token.XOR:
				return normInt(a^b, w, signed)
			case token.AND_NOT:
				return normInt(a&^b, w, signed)
			case token.EQL:
				return a == b
			case token.NEQ:
				return a != b
			case token.LSS:
				if signed {
					return int64(a) < int64(b)
				}
				return a < b
			case token.LEQ:
				if signed {
					return int64(a) <= int64(b)
				}
				return a <= b
			case token.GTR:
				if signed {
					return int64(a) > int64(b)
				}
				return a > b
			case token.GEQ:
				if signed {
					return int64(a) >= int64(b)
				}
				return a >= b
			}
			panic(fmt.Sprintf("int binop %v", op))
		}
		a := in.toTerm(x, xt)
		b := in.toTerm(y, xt)
		switch op {
		case token.ADD:
			return in.fromTerm(tt.BVOp("bvadd", a, b), xt)
		case token.SUB:
			return in.fromTerm(tt.BVOp("bvsub", a, b), xt)
		case token.MUL:
			return in.fromTerm(tt.BVOp("bvmul", a, b), xt)
		case token.QUO, token.REM:
			zero := tt.Eq(b, tt.BVConst(0, w))
			if in.branch(boolVal(zero), "div-by-zero "+fr.where()) {
				fr.tpanic("divide", in.runtimeError("integer divide by zero"))
			}
			o := "bvudiv"
			if op == token.REM {
				o = "bvurem"
			}
			if signed {
				o = "bvsdiv"
				if op == token.REM {
					o = "bvsrem"
				}
			}
			return in.fromTerm(tt.BVOp(o, a, b), xt)
		case token.AND:
			return in.fromTerm(tt.BVOp("bvand", a, b), xt)
		case token.OR:
			return in.fromTerm(tt.BVOp("bvor", a, b), xt)
		case token.XOR:
			return in.fromTerm(tt.BVOp("bvxor", a, b), xt)
		case token.AND_NOT:
			return in.fromTerm(tt.BVOp("bvand", a, tt.BVNot(b)), xt)
		case token.EQL:
			return boolVal(tt.Eq(a, b))
		case token.NEQ:
			return boolVal(tt.Not(tt.Eq(a, b)))
		case token.LSS, token.LEQ, token.GTR, token.GEQ:
			return boolVal(tt.BVCmp(cmpOp(op, signed), a, b))
		}
	case isString(xt):
		a, b := x.(Str), y.(Str)
		switch op {
		case token.ADD:
			return concatStr(a, b)
		case token.EQL:
			return in.strEq(a, b)
		case token.NEQ:
			return in.notVal(in.strEq(a, b))
		case token.LSS, token.LEQ, token.GTR, token.GEQ:
			ca, oka := a.Concrete()
			cb, okb := b.Concrete()
			if oka && okb {
				switch op {
				case token.LSS:
					return ca < cb
				case token.LEQ:
					return ca <= cb
				case token.GTR:
					return ca > cb
				case token.GEQ:
					return ca >= cb
				}
			}
			// uninterpreted strict total order on sequences
			lt := func(p, q Str) *Term {
				return tt.UF("str_lt", BoolSort, p.SeqTerm(tt), q.SeqTerm(tt))
			}
			eq := in.boolTerm(in.strEq(a, b))
			switch op {
			case token.LSS:
				return boolVal(lt(a, b))
			case token.GTR:
				return boolVal(lt(b, a))
			case token.LEQ:
				return boolVal(tt.Or(lt(a, b), eq))
			case token.GEQ:
				return boolVal(tt.Or(lt(b, a), eq))
			}
		}
	case isBool(xt):
		switch op {
		case token.EQL:
			return in.eqVal(x, y)
		case token.NEQ:
			return in.notVal(in.eqVal(x, y))
		}
	case isFloat(xt):
		a, b := x.(float64), y.(float64)
		switch op {
		case token.ADD:
			return a + b
		case token.SUB:
			return a - b
		case token.MUL:
			return a * b
		case token.QUO:
			return a / b
		case token.EQL:
			return a == b
		case token.NEQ:
			return a != b
		case token.LSS:
			return a < b
		case token.LEQ:
			return a <= b
		case token.GTR:
			return a > b
		case token.GEQ:
			return a >= b
		}
	default:
		switch op {
		case token.EQL:
			return in.eqVal(x, y)
		case token.NEQ:
			return in.notVal(in.eqVal(x, y))
		}
	}
	panic(fmt.Sprintf("binop: unsupported %v on %v (%T,%T) at %s", op, xt, x, y, fr.where()))
}

func (in *Interp) strEq(a, b Str) Value {
	ca, oka := a.Concrete()
	cb, okb := b.Concrete()
	if oka && okb {
		return ca == cb
	}
	if a.key() == b.key() {
		return true
	}
	// input string against a short literal: length and bytes, no sequence theory
	if okb && !oka {
		a, b, ca, cb, oka, okb = b, a, cb, ca, okb, oka
	}
	if oka && len(b.p) == 1 && b.p[0].k == pkAtom && b.p[0].t.op == "var" && len(ca) <= byteViewMax {
		conj := []*Term{in.tt.Eq(b.p[0].n, in.tt.BVConst(uint64(len(ca)), 64))}
		for i := 0; i < len(ca); i++ {
			conj = append(conj, in.tt.Eq(in.atomByte(b.p[0].t, i), in.tt.BVConst(uint64(ca[i]), 8)))
		}
		return boolVal(in.tt.And(conj...))
	}
	la, okla := a.ConcreteLen()
	lb, oklb := b.ConcreteLen()
	if okla && oklb {
		if la != lb {
			return false
		}
		// bytewise
		va, _ := valuesOfStr(a)
		vb, _ := valuesOfStr(b)
		conj := []*Term{}
		for i := range va {
			x, y := va[i], vb[i]
			xi, xc := x.(Int)
			yi, yc := y.(Int)
			if xc && yc {
				if xi != yi {
					return false
				}
				continue
			}
			tx, ty := in.byteTerm(x), in.byteTerm(y)
			conj = append(conj, in.tt.Eq(tx, ty))
		}
		return boolVal(in.tt.And(conj...))
	}
	if r, ok := in.alignEq(a, b); ok {
		return r
	}
	// comparison with the empty string: a pure length test
	if len(a.p) == 0 {
		return boolVal(in.tt.Eq(b.LenTerm(in.tt), in.tt.BVConst(0, 64)))
	}
	if len(b.p) == 0 {
		return boolVal(in.tt.Eq(a.LenTerm(in.tt), in.tt.BVConst(0, 64)))
	}
	// length disequality shortcut is left to the solver (lengths are tied)
	eq := in.tt.Eq(a.SeqTerm(in.tt), b.SeqTerm(in.tt))
	// help the solver: equal sequences have equal BV lengths
	return boolVal(in.tt.And(eq, in.tt.Eq(a.LenTerm(in.tt), b.LenTerm(in.tt))))
}

const byteViewMax = 48

// atomByte is byte i of an input string, as a BV8 variable of its own (pure
// bit-vector reasoning); it is linked to the sequence view only if and when
// the sequence variable itself is used.
func (in *Interp) atomByte(seqVar *Term, i int) *Term {
	m := in.tt.byteVars[seqVar]
	if m == nil {
		m = map[int]*Term{}
		in.tt.byteVars[seqVar] = m
	}
	if b, ok := m[i]; ok {
		return b
	}
	b := in.tt.Var(fmt.Sprintf("%s[%d]", seqVar.name, i), BV(8))
	m[i] = b
	if seqVar.Declared() {
		in.assume(in.tt.Eq(b, in.tt.SeqNth(seqVar, in.tt.IntConst(int64(i)))))
	}
	return b
}

// strByte returns byte i (concrete index) of s without bounds checking.
func (in *Interp) strByte(s Str, i int) Value {
	off := i
	for _, p := range s.p {
		switch p.k {
		case pkBytes:
			if off < len(p.b) {
				return Int(p.b[off])
			}
			off -= len(p.b)
		case pkUnit:
			if off == 0 {
				return p.t
			}
			off--
		case pkAtom:
			if p.t.op == "var" && off < byteViewMax {
				// valid only if the index lies inside this atom; callers have
				// established i < len(s); for a single-atom string that is exact
				if len(s.p) == 1 || &p == &s.p[len(s.p)-1] {
					return in.atomByte(p.t, off)
				}
			}
			return in.tt.SeqNth(s.SeqTerm(in.tt), in.tt.IntConst(int64(i)))
		}
	}
	return in.tt.SeqNth(s.SeqTerm(in.tt), in.tt.IntConst(int64(i)))
}

// alignEq decides a == b structurally when both are built from the same atoms
// in the same order and the byte runs between the atoms have pairwise equal
// (concrete) lengths: then a == b iff the runs are bytewise equal.
func (in *Interp) alignEq(a, b Str) (Value, bool) {
	type seg struct {
		run  []Value
		atom *Term
	}
	split := func(s Str) []seg {
		var out []seg
		cur := seg{}
		for _, p := range s.p {
			switch p.k {
			case pkBytes:
				for i := 0; i < len(p.b); i++ {
					cur.run = append(cur.run, Int(p.b[i]))
				}
			case pkUnit:
				cur.run = append(cur.run, p.t)
			case pkAtom:
				cur.atom = p.t
				out = append(out, cur)
				cur = seg{}
			}
		}
		out = append(out, cur)
		return out
	}
	sa, sb := split(a), split(b)
	if len(sa) != len(sb) {
		return nil, false
	}
	for i := range sa {
		if sa[i].atom != sb[i].atom || len(sa[i].run) != len(sb[i].run) {
			return nil, false
		}
	}
	conj := []*Term{}
	for i := range sa {
		for j := range sa[i].run {
			x, y := sa[i].run[j], sb[i].run[j]
			xi, xc := x.(Int)
			yi, yc := y.(Int)
			if xc && yc {
				if xi != yi {
					return false, true
				}
				continue
			}
			conj = append(conj, in.tt.Eq(in.byteTerm(x), in.byteTerm(y)))
		}
	}
	return boolVal(in.tt.And(conj...)), true
}

func (in *Interp) byteTerm(v Value) *Term {
	switch x := v.(type) {
	case Int:
		return in.tt.BVConst(uint64(x), 8)
	case *Term:
		return x
	}
	panic("byteTerm")
}

// eqVal implements == for comparable values.
func (in *Interp) eqVal(x, y Value) Value {
	switch a := x.(type) {
	case nil:
		return isNilValue(y)
	case bool:
		switch b := y.(type) {
		case bool:
			return a == b
		case *Term:
			return boolVal(in.tt.Eq(in.tt.Bool(a), b))
		}
	case Int:
		switch b := y.(type) {
		case Int:
			return a == b
		case *Term:
			return boolVal(in.tt.Eq(in.tt.BVConst(uint64(a), b.sort.W), b))
		}
	case float64:
		return a == y.(float64)
	case *Term:
		switch b := y.(type) {
		case *Term:
			return boolVal(in.tt.Eq(a, b))
		case bool:
			return boolVal(in.tt.Eq(a, in.tt.Bool(b)))
		case Int:
			return boolVal(in.tt.Eq(a, in.tt.BVConst(uint64(b), a.sort.W)))
		}
	case Str:
		return in.strEq(a, y.(Str))
	case *Value:
		if y == nil {
			return a == nil
		}
		return a == y.(*Value)
	case *Map:
		if y == nil {
			return a == nil
		}
		return a == y.(*Map)
	case *Chan:
		if y == nil {
			return a == nil
		}
		return a == y.(*Chan)
	case *Obj:
		b, _ := y.(*Obj)
		return a == b
	case Slice:
		// only comparison with nil is legal
		return a.arr == nil && a.symLen == nil
	case SymBytes:
		return false
	case Iface:
		switch b := y.(type) {
		case Iface:
			if a.T == nil || b.T == nil {
				return a.T == nil && b.T == nil
			}
			if !types.Identical(a.T, b.T) {
				return false
			}
			return in.eqVal(a.V, b.V)
		case *SymIface:
			if a.T == nil {
				return boolVal(b.node.valueKindIs(in, "nil"))
			}
			in.unsupported("comparison of symbolic interface with non-nil interface")
		case nil:
			return a.T == nil
		}
	case *SymIface:
		if b, ok := y.(Iface); ok && b.T == nil {
			return boolVal(a.node.valueKindIs(in, "nil"))
		}
		if y == nil {
			return boolVal(a.node.valueKindIs(in, "nil"))
		}
		in.unsupported("comparison of symbolic interface")
	case Struct:
		b := y.(Struct)
		conj := []*Term{}
		for i := range a {
			r := in.eqVal(a[i], b[i])
			if rb, ok := r.(bool); ok {
				if !rb {
					return false
				}
				continue
			}
			conj = append(conj, r.(*Term))
		}
		return boolVal(in.tt.And(conj...))
	case Array:
		b := y.(Array)
		conj := []*Term{}
		for i := range a {
			r := in.eqVal(a[i], b[i])
			if rb, ok := r.(bool); ok {
				if !rb {
					return false
				}
				continue
			}
			conj = append(conj, r.(*Term))
		}
		return boolVal(in.tt.And(conj...))
	case *ssa.Function, *Closure, *NativeFunc, *ssa.Builtin:
		return isNilValue(y) && false
	}
	if isNilValue(x) && isNilValue(y) {
		return true
	}
	if y == nil {
		return isNilValue(x)
	}
	panic(fmt.Sprintf("eqVal: unsupported %T == %T", x, y))
}

func isNilValue(v Value) bool {
	switch x := v.(type) {
	case nil:
		return true
	case *Value:
		return x == nil
	case *Map:
		return x == nil
	case *Chan:
		return x == nil
	case Slice:
		return x.arr == nil && x.symLen == nil
	case Iface:
		return x.T == nil
	case *Closure:
		return x == nil
	case *ssa.Function:
		return x == nil
	}
	return false
}

// ------------------------------------------------------------------

func (in *Interp) convert(fr *frame, from, to types.Type, v Value) Value {
	uf, ut := from.Underlying(), to.Underlying()
	switch {
	case isInteger(from) && isInteger(to):
		fw, fs := intInfo(from)
		tw, ts := intInfo(to)
		switch x := v.(type) {
		case Int:
			return normInt(uint64(x), tw, ts)
		case *Term:
			var r *Term
			switch {
			case tw == fw:
				r = x
			case tw < fw:
				r = in.tt.Extract(tw-1, 0, x)
			case fs:
				r = in.tt.SignExt(x, tw)
			default:
				r = in.tt.ZeroExt(x, tw)
			}
			return in.fromTerm(r, to)
		}
	case isInteger(from) && isString(to):
		if x, ok := v.(Int); ok {
			return CStr(string(rune(int64(x))))
		}
		// string(symbolic rune): the UTF-8 rendering is not modelled; opaque text
		return in.opaqueStr("runestr")
	case isString(from) && isString(to):
		return v
	case isString(from):
		if sl, ok := ut.(*types.Slice); ok {
			s := v.(Str)
			if b, ok := sl.Elem().Underlying().(*types.Basic); ok && b.Kind() == types.Uint8 {
				if vals, ok := valuesOfStr(s); ok {
					arr := vals
					if arr == nil {
						arr = []Value{}
					}
					return Slice{arr: &arr, n: len(arr), cp: len(arr)}
				}
				return SymBytes{s: s}
			}
			// []rune
			c, ok := s.Concrete()
			if !ok {
				in.unsupported("[]rune(symbolic string)")
			}
			var arr []Value
			for _, r := range c {
				arr = append(arr, Int(uint64(int64(r))))
			}
			if arr == nil {
				arr = []Value{}
			}
			return Slice{arr: &arr, n: len(arr), cp: len(arr)}
		}
	case isString(to):
		if sl, ok := uf.(*types.Slice); ok {
			if b, ok := sl.Elem().Underlying().(*types.Basic); ok && b.Kind() == types.Uint8 {
				return in.bytesToStr(fr, v)
			}
			// []rune -> string
			s := v.(Slice)
			var rs []rune
			for i := 0; i < s.n; i++ {
				e, ok := (*s.arr)[s.off+i].(Int)
				if !ok {
					in.unsupported("string([]rune symbolic)")
				}
				rs = append(rs, rune(int64(e)))
			}
			return CStr(string(rs))
		}
	case isFloat(from) && isFloat(to):
		if b := ut.(*types.Basic); b.Kind() == types.Float32 {
			return float64(float32(v.(float64)))
		}
		return v
	case isInteger(from) && isFloat(to):
		x, ok := v.(Int)
		if !ok {
			in.unsupported("float(symbolic int)")
		}
		if _, s := intInfo(from); s {
			return float64(int64(x))
		}
		return float64(uint64(x))
	case isFloat(from) && isInteger(to):
		f := v.(float64)
		w, s := intInfo(to)
		if s {
			return normInt(uint64(int64(f)), w, true)
		}
		return normInt(uint64(f), w, false)
	}
	// pointer <-> unsafe.Pointer etc.
	if _, ok := ut.(*types.Pointer); ok {
		return v
	}
	if b, ok := ut.(*types.Basic); ok && b.Kind() == types.UnsafePointer {
		return v
	}
	_ = math.MaxInt8
	panic(fmt.Sprintf("convert: unsupported %v -> %v at %s", from, to, fr.where()))
}

func (in *Interp) bytesToStr(fr *frame, v Value) Str {
	switch s := v.(type) {
	case SymBytes:
		return s.s
	case Slice:
		if s.symLen != nil {
			in.unsupported("string of symbolic-length slice")
		}
		if s.arr == nil {
			return Str{}
		}
		return strFromValues((*s.arr)[s.off : s.off+s.n])
	}
	panic(fmt.Sprintf("bytesToStr: %T", v))
}

// ------------------------------------------------------------------
// slices and indexing

// boundsCheck forks on a symbolic bounds condition; ok is the in-bounds condition.
func (in *Interp) boundsCheck(fr *frame, ok Value, kind string) {
	if !in.branch(ok, "bounds "+fr.where()) {
		msg := "index out of range"
		if kind == "slice" {
			msg = "slice bounds out of range"
		}
		fr.tpanic(kind, in.runtimeError(msg))
	}
}

func (in *Interp) intTerm64(v Value) *Term {
	switch x := v.(type) {
	case Int:
		return in.tt.BVConst(uint64(x), 64)
	case *Term:
		if x.sort.W == 64 {
			return x
		}
		return in.tt.SignExt(x, 64)
	}
	panic("intTerm64")
}

// strSlice computes s[lo:hi] (hi==nil => to end) with bounds checks.
func (in *Interp) strSlice(fr *frame, s Str, lo, hi Value) Str {
	tt := in.tt
	loI, loC := lo.(Int)
	var hiI Int
	hiC := true
	if hi != nil {
		hiI, hiC = hi.(Int)
	}
	n, nC := s.ConcreteLen()
	if loC && hiC && nC {
		l := int(int64(loI))
		h := n
		if hi != nil {
			h = int(int64(hiI))
		}
		if l < 0 || h < l || h > n {
			fr.tpanic("slice", in.runtimeError("slice bounds out of range"))
		}
		p, _ := s.prefix(h)
		r, _ := p.sliceFrom(l)
		return r
	}
	L := s.LenTerm(tt)
	lt := in.intTerm64(lo)
	var ht *Term
	if hi != nil {
		ht = in.intTerm64(hi)
	} else {
		ht = L
	}
	ok := tt.And(tt.BVCmp("bvule", lt, ht), tt.BVCmp("bvule", ht, L))
	in.boundsCheck(fr, boolVal(ok), "slice")
	// resolvable without crossing atoms?
	if loC && (hi == nil || hiC) {
		l := int(int64(loI))
		if hi == nil {
			if r, ok := s.sliceFrom(l); ok {
				return r
			}
		} else if p, ok := s.prefix(int(int64(hiI))); ok {
			if r, ok := p.sliceFrom(l); ok {
				return r
			}
		}
	}
	newLen := tt.BVOp("bvsub", ht, lt)
	S := s.SeqTerm(tt)
	var ext *Term
	switch {
	case loC && hi == nil:
		// s[lo:]: lengths as Int expressions of seq.len (no bv2nat)
		ext = tt.SeqExtract(S, tt.IntConst(int64(loI)), tt.IntOp("-", tt.SeqLen(S), tt.IntConst(int64(loI))))
	case loC && hiC:
		ext = tt.SeqExtract(S, tt.IntConst(int64(loI)), tt.IntConst(int64(hiI)-int64(loI)))
	default:
		ext = tt.SeqExtract(S, tt.BV2Nat(lt), tt.BV2Nat(newLen))
	}
	return in.atomFromSeq(ext, newLen)
}

// atomFromSeq wraps a Seq term and its BV64 length as a string.
func (in *Interp) atomFromSeq(seq, n *Term) Str {
	if n.IsConst() && n.cval == 0 {
		return Str{}
	}
	return Str{p: []piece{{k: pkAtom, t: seq, n: n}}}
}

func (in *Interp) strIndex(fr *frame, s Str, idx Value) Value {
	tt := in.tt
	if i, ok := idx.(Int); ok {
		n, nC := s.ConcreteLen()
		if nC {
			if int64(i) < 0 || int(int64(i)) >= n {
				fr.tpanic("index", in.runtimeError("index out of range"))
			}
			b, _ := s.byteAt(int(i))
			return b
		}
		okc := tt.BVCmp("bvult", tt.BVConst(uint64(i), 64), s.LenTerm(tt))
		in.boundsCheck(fr, boolVal(okc), "index")
		if b, ok := s.byteAt(int(i)); ok {
			return b
		}
		return in.strByte(s, int(i))
	}
	it := in.intTerm64(idx)
	okc := tt.BVCmp("bvult", it, s.LenTerm(tt))
	in.boundsCheck(fr, boolVal(okc), "index")
	return tt.SeqNth(s.SeqTerm(tt), tt.BV2Nat(it))
}

func (in *Interp) sliceOp(fr *frame, x *ssa.Slice) Value {
	v := fr.get(x.X)
	var lo, hi, max Value
	lo = Int(0)
	if x.Low != nil {
		lo = fr.get(x.Low)
	}
	if x.High != nil {
		hi = fr.get(x.High)
	}
	if x.Max != nil {
		max = fr.get(x.Max)
	}
	switch s := v.(type) {
	case Str:
		return in.strSlice(fr, s, lo, hi)
	case SymBytes:
		return SymBytes{s: in.strSlice(fr, s.s, lo, hi)}
	case *Value: // pointer to array
		if s == nil {
			fr.tpanic("nil-deref", in.runtimeError("invalid memory address or nil pointer dereference"))
		}
		a := (*s).(Array)
		arr := []Value(a)
		return in.sliceSlice(fr, Slice{arr: &arr, n: len(arr), cp: len(arr)}, lo, hi, max)
	case Slice:
		return in.sliceSlice(fr, s, lo, hi, max)
	}
	panic(fmt.Sprintf("sliceOp on %T", v))
}

func (in *Interp) sliceSlice(fr *frame, s Slice, lo, hi, max Value) Value {
	tt := in.tt
	if s.symLen != nil {
		l := in.concreteInt(fr, lo, "slice low")
		if max != nil {
			in.unsupported("3-index slice of symbolic-length slice")
		}
		if hi != nil {
			h := in.concreteInt(fr, hi, "slice high")
			// h <= cap is required; result has concrete length
			if l < 0 || h < l || h > s.cp {
				fr.tpanic("slice", in.runtimeError("slice bounds out of range"))
			}
			return Slice{arr: s.arr, off: s.off + l, n: h - l, cp: s.cp - l}
		}
		okc := tt.BVCmp("bvule", tt.BVConst(uint64(l), 64), s.symLen)
		in.boundsCheck(fr, boolVal(okc), "slice")
		nl := tt.BVOp("bvsub", s.symLen, tt.BVConst(uint64(l), 64))
		return Slice{arr: s.arr, off: s.off + l, symLen: nl, cp: s.cp - l}
	}
	l := in.concreteInt(fr, lo, "slice low")
	h := s.n
	if hi != nil {
		h = in.concreteInt(fr, hi, "slice high")
	}
	m := s.cp
	if max != nil {
		m = in.concreteInt(fr, max, "slice max")
	}
	if l < 0 || h < l || m < h || m > s.cp {
		fr.tpanic("slice", in.runtimeError("slice bounds out of range"))
	}
	if s.arr == nil {
		return Slice{}
	}
	return Slice{arr: s.arr, off: s.off + l, n: h - l, cp: m - l}
}

func (in *Interp) indexAddr(fr *frame, x *ssa.IndexAddr) Value {
	v := fr.get(x.X)
	idx := fr.get(x.Index)
	switch s := v.(type) {
	case *Value:
		if s == nil {
			fr.tpanic("nil-deref", in.runtimeError("invalid memory address or nil pointer dereference"))
		}
		a := (*s).(Array)
		i := in.concreteIdx(fr, idx, len(a))
		return &a[i]
	case Slice:
		if s.symLen != nil {
			i := in.concreteInt(fr, idx, "index")
			if i < 0 {
				fr.tpanic("index", in.runtimeError("index out of range"))
			}
			okc := in.tt.BVCmp("bvult", in.tt.BVConst(uint64(i), 64), s.symLen)
			in.boundsCheck(fr, boolVal(okc), "index")
			return &(*s.arr)[s.off+i]
		}
		i := in.concreteIdx(fr, idx, s.n)
		return &(*s.arr)[s.off+i]
	case SymBytes:
		b := in.strIndex(fr, s.s, idx)
		cell := new(Value)
		*cell = b
		in.roCells[cell] = true
		return cell
	}
	panic(fmt.Sprintf("indexAddr on %T at %s", v, fr.where()))
}

// concreteIdx returns a concrete in-range index, forking on symbolic indices.
func (in *Interp) concreteIdx(fr *frame, idx Value, n int) int {
	switch i := idx.(type) {
	case Int:
		if int64(i) < 0 || int(int64(i)) >= n {
			fr.tpanic("index", in.runtimeError(fmt.Sprintf("index out of range [%d] with length %d", int64(i), n)))
		}
		return int(i)
	case *Term:
		conds := make([]*Term, 0, n+1)
		for k := 0; k < n; k++ {
			conds = append(conds, in.tt.Eq(i, in.tt.BVConst(uint64(k), i.sort.W)))
		}
		conds = append(conds, in.tt.BVCmp("bvuge", i, in.tt.BVConst(uint64(n), i.sort.W)))
		k := in.fork(conds, "index "+fr.where())
		if k == n {
			fr.tpanic("index", in.runtimeError("index out of range"))
		}
		return k
	}
	panic("concreteIdx")
}

func (in *Interp) index(fr *frame, x *ssa.Index) Value {
	v := fr.get(x.X)
	idx := fr.get(x.Index)
	switch a := v.(type) {
	case Array:
		return copyVal(a[in.concreteIdx(fr, idx, len(a))])
	case Str:
		return in.strIndex(fr, a, idx)
	}
	panic(fmt.Sprintf("index on %T", v))
}

func (in *Interp) lookup(fr *frame, x *ssa.Lookup) Value {
	v := fr.get(x.X)
	k := fr.get(x.Index)
	if s, ok := v.(Str); ok {
		return in.strIndex(fr, s, k)
	}
	m, _ := v.(*Map)
	elemT := x.X.Type().Underlying().(*types.Map).Elem()
	zero := in.zero(elemT)
	if m == nil {
		if x.CommaOk {
			return Tuple{zero, false}
		}
		return zero
	}
	if val, found, ok := m.Get(k); ok {
		if !found {
			val = zero
		}
		if x.CommaOk {
			return Tuple{copyVal(val), found}
		}
		return copyVal(val)
	}
	// symbolic key: ite chain over entries when values are scalar/string
	keyT := x.X.Type().Underlying().(*types.Map).Key()
	return in.symLookup(fr, m, k, keyT, elemT, zero, x.CommaOk)
}

func (in *Interp) symLookup(fr *frame, m *Map, k Value, keyT, elemT types.Type, zero Value, commaOk bool) Value {
	tt := in.tt
	var conds []*Term
	var vals []Value
	for i := range m.keys {
		if !m.live[i] {
			continue
		}
		var c Value
		if isString(keyT) {
			c = in.strEq(m.keys[i].(Str), k.(Str))
		} else {
			c = in.eqVal(m.keys[i], k)
		}
		if b, ok := c.(bool); ok {
			if !b {
				continue
			}
			conds = append(conds, tt.True())
		} else {
			conds = append(conds, c.(*Term))
		}
		vals = append(vals, m.vals[i])
	}
	// choose by forking (precise; used rarely) unless element is string/scalar
	switch {
	case isString(elemT):
		// result = ite chain as a fresh atom
		seq := zero.(Str).SeqTerm(tt)
		ln := zero.(Str).LenTerm(tt)
		for i := len(conds) - 1; i >= 0; i-- {
			seq = tt.Ite(conds[i], vals[i].(Str).SeqTerm(tt), seq)
			ln = tt.Ite(conds[i], vals[i].(Str).LenTerm(tt), ln)
		}
		res := in.atomFromSeq(seq, ln)
		if commaOk {
			return Tuple{res, boolVal(tt.Or(conds...))}
		}
		return res
	case isInteger(elemT) || isBool(elemT):
		r := in.toTerm(zero, elemT)
		for i := len(conds) - 1; i >= 0; i-- {
			r = tt.Ite(conds[i], in.toTerm(vals[i], elemT), r)
		}
		if commaOk {
			return Tuple{in.fromTerm(r, elemT), boolVal(tt.Or(conds...))}
		}
		return in.fromTerm(r, elemT)
	}
	all := append([]*Term{}, conds...)
	all = append(all, tt.Not(tt.Or(conds...)))
	i := in.fork(all, "map lookup "+fr.where())
	if i == len(conds) {
		if commaOk {
			return Tuple{zero, false}
		}
		return zero
	}
	if commaOk {
		return Tuple{copyVal(vals[i]), true}
	}
	return copyVal(vals[i])
}

// ------------------------------------------------------------------
// type assertions

func (in *Interp) implements(dyn types.Type, iface *types.Interface) bool {
	if named, ok := derefNamed(dyn); ok && named.Obj() != nil && named.Obj().Pkg() == nil && len(named.Obj().Name()) > 5 && named.Obj().Name()[:5] == "stub." {
		return true // environment stubs implement whatever interface they are asked for
	}
	return types.Implements(dyn, iface)
}

func derefNamed(t types.Type) (*types.Named, bool) {
	if p, ok := t.(*types.Pointer); ok {
		t = p.Elem()
	}
	n, ok := t.(*types.Named)
	return n, ok
}

func (in *Interp) typeAssert(fr *frame, x *ssa.TypeAssert) Value {
	v := fr.get(x.X)
	at := x.AssertedType
	if si, ok := v.(*SymIface); ok {
		return in.symTypeAssert(fr, si, x)
	}
	itf := v.(Iface)
	var ok bool
	if ai, isI := at.Underlying().(*types.Interface); isI {
		ok = itf.T != nil && in.implements(itf.T, ai)
	} else {
		ok = itf.T != nil && types.Identical(itf.T, at)
	}
	var res Value
	if ok {
		if _, isI := at.Underlying().(*types.Interface); isI {
			res = itf
		} else {
			res = itf.V
		}
	} else {
		res = in.zero(at)
	}
	if x.CommaOk {
		return Tuple{res, ok}
	}
	if !ok {
		dyn := "nil"
		if itf.T != nil {
			dyn = itf.T.String()
		}
		o := in.newObj("error")
		o.str = CStr(fmt.Sprintf("interface conversion: interface {} is %s, not %s", dyn, at.String()))
		o.b = true
		fr.tpanic("type-assert", in.ifaceOf(o))
	}
	return res
}

// ------------------------------------------------------------------
// range / next

type iter struct {
	kind string
	keys []Value
	m    *Map
	pos  int
	runes []rune
	offs  []int
}

func (in *Interp) rangeIter(fr *frame, x *ssa.Range) Value {
	v := fr.get(x.X)
	switch c := v.(type) {
	case *Map:
		it := &iter{kind: "map", m: c}
		if c != nil {
			for i, k := range c.keys {
				if c.live[i] {
					it.keys = append(it.keys, k)
				}
			}
			// optional harness-controlled permutation of iteration order
			it.keys = in.permuteKeys(fr, it.keys)
		}
		return it
	case Str:
		s, ok := c.Concrete()
		if !ok {
			in.unsupported("range over symbolic string at %s", fr.where())
		}
		it := &iter{kind: "str"}
		for i, r := range s {
			it.runes = append(it.runes, r)
			it.offs = append(it.offs, i)
		}
		return it
	}
	panic(fmt.Sprintf("range over %T", v))
}

func (in *Interp) next(fr *frame, x *ssa.Next) Value {
	it := fr.get(x.Iter).(*iter)
	if it.kind == "str" {
		if it.pos >= len(it.runes) {
			return Tuple{false, Int(0), Int(0)}
		}
		i := it.pos
		it.pos++
		return Tuple{true, Int(it.offs[i]), Int(uint64(int64(it.runes[i])))}
	}
	for it.pos < len(it.keys) {
		k := it.keys[it.pos]
		it.pos++
		if v, found, _ := it.m.Get(k); found {
			return Tuple{true, k, copyVal(v)}
		}
	}
	return Tuple{false, nil, nil}
}

// ------------------------------------------------------------------

func (in *Interp) chanReady(fr *frame, ch *Chan) bool {
	if ch == nil {
		return false
	}
	if ch.closed || len(ch.queue) > 0 {
		return true
	}
	if ch.timer != nil {
		st, _ := ch.timer.F["state"].(string)
		return st == "fired"
	}
	return ch.ctx != nil && in.ctxCancelled(fr, ch.ctx)
}

// timerPending: a timer channel that has neither fired nor been stopped.
func timerPending(ch *Chan) bool {
	if ch == nil || ch.timer == nil {
		return false
	}
	st, _ := ch.timer.F["state"].(string)
	return st == "pending"
}

func (in *Interp) selectOp(fr *frame, x *ssa.Select) Value {
	// supported: receive cases on ctx.Done() channels and on channels that are
	// only ever closed, with or without default
	mk := func() Tuple {
		res := Tuple{Int(uint64(0)), false}
		for _, st := range x.States {
			if st.Dir == types.RecvOnly {
				res = append(res, in.zero(st.Chan.Type().Underlying().(*types.Chan).Elem()))
			}
		}
		return res
	}
	var chans []*Chan
	isSend := make([]bool, len(x.States))
	for i, st := range x.States {
		ch, _ := fr.get(st.Chan).(*Chan)
		if st.Dir != types.RecvOnly {
			if ch != nil && (ch.cp == 0 || ch.ctx != nil || ch.timer != nil) {
				in.unsupported("select with a send on an unbuffered channel")
			}
			isSend[i] = true
		}
		chans = append(chans, ch)
	}
	sendReady := func(ch *Chan) bool { return ch != nil && (ch.closed || len(ch.queue) < ch.cp) }
	try := func() (Tuple, bool) {
		for i, ch := range chans {
			if isSend[i] {
				if sendReady(ch) {
					if ch.closed {
						fr.tpanic("explicit", CStr("send on closed channel"))
					}
					ch.queue = append(ch.queue, copyVal(fr.get(x.States[i].Send)))
					in.emit("chan.send", fmt.Sprintf("chan#%d", ch.id))
					res := mk()
					res[0] = Int(uint64(i))
					return res, true
				}
				continue
			}
			if ch != nil && ch.ctx != nil {
				in.emit("poll", ch.ctx.String(), fmt.Sprint(in.ctxCancelled(fr, ch.ctx)))
			}
			if in.chanReady(fr, ch) {
				if ch.ctx == nil {
					in.emit("chan.recv", fmt.Sprintf("chan#%d", ch.id))
				}
				res := mk()
				res[0] = Int(uint64(i))
				if len(ch.queue) > 0 {
					// received values follow (index, recvOk) in state order, receive states only
					k := 2
					for j := 0; j < i; j++ {
						if !isSend[j] {
							k++
						}
					}
					if k < len(res) {
						res[k] = ch.queue[0]
					}
					res[1] = true
					ch.queue = ch.queue[1:]
				}
				return res, true
			}
		}
		return nil, false
	}
	// a pending timer may fire at any moment: one symbolic choice per select ("enough time
	// has passed"); if it does not fire now it fires once nothing else in the program can run
	for _, ch := range chans {
		if timerPending(ch) {
			v := in.tt.Var(fmt.Sprintf("time.passes.timer%d.%d", ch.id, len(in.path.inputs)), BoolSort)
			in.path.inputs = append(in.path.inputs, InputVar{Name: v.name, Kind: "bool", T: v})
			if in.branch(boolVal(v), "time passes: the timer fires") {
				ch.timer.F["state"] = "fired"
				in.emit("timer.fire", fmt.Sprintf("chan#%d", ch.id))
			}
		}
	}
	if r, ok := try(); ok {
		return r
	}
	if !x.Blocking {
		res := mk()
		res[0] = normInt(^uint64(0), 64, true) // -1
		return res
	}
	self := in.curTid()
	in.block("select", func() bool {
		for i, ch := range chans {
			if isSend[i] {
				if sendReady(ch) {
					return true
				}
				continue
			}
			if in.chanReady(fr, ch) {
				return true
			}
		}
		// everything else is stuck: time passes and a pending timer fires
		if !in.inCond {
			in.inCond = true
			stuck := !in.othersRunnable(self)
			in.inCond = false
			if stuck {
				for _, ch := range chans {
					if timerPending(ch) {
						return true
					}
				}
			}
		}
		return false
	})
	if r, ok := try(); ok {
		return r
	}
	for _, ch := range chans {
		if timerPending(ch) {
			ch.timer.F["state"] = "fired"
			in.emit("timer.fire", fmt.Sprintf("chan#%d", ch.id))
			break
		}
	}
	r, _ := try()
	return r
}

// ------------------------------------------------------------------
// builtins

func (in *Interp) lenOf(fr *frame, v Value) Value {
	switch x := v.(type) {
	case Str:
		return x.LenValue(in.tt)
	case SymBytes:
		return x.s.LenValue(in.tt)
	case Slice:
		if x.symLen != nil {
			return x.symLen
		}
		return Int(x.n)
	case *Map:
		if x == nil {
			return Int(0)
		}
		return Int(x.Len())
	case Array:
		return Int(len(x))
	case *Value:
		if x == nil {
			return Int(0)
		}
		return Int(len((*x).(Array)))
	case *Chan:
		if x == nil {
			return Int(0)
		}
		return Int(len(x.queue))
	}
	panic(fmt.Sprintf("len of %T", v))
}

func (in *Interp) builtin(fr *frame, b *ssa.Builtin, args []Value, site ssa.Instruction) Value {
	switch b.Name() {
	case "len":
		return in.lenOf(fr, args[0])
	case "cap":
		switch x := args[0].(type) {
		case Slice:
			return Int(x.cp)
		case SymBytes:
			return x.s.LenValue(in.tt)
		case Array:
			return Int(len(x))
		}
	case "append":
		return in.appendOp(fr, args[0], args[1])
	case "copy":
		return in.copyOp(fr, args[0], args[1])
	case "delete":
		m, _ := args[0].(*Map)
		if m != nil {
			if !m.Delete(args[1]) {
				var keyT types.Type = types.Typ[types.Int64]
				if _, isStr := args[1].(Str); isStr {
					keyT = types.Typ[types.String]
				} else if _, isT := args[1].(*Term); !isT {
					if _, isI := args[1].(Int); !isI {
						in.unsupported("delete with symbolic key")
					}
				}
				if !in.mapDeleteSym(m, args[1], keyT) {
					in.unsupported("delete with symbolic key")
				}
			}
		}
		return nil
	case "close":
		ch, _ := args[0].(*Chan)
		if ch == nil {
			fr.tpanic("explicit", CStr("close of nil channel"))
		}
		if ch.closed {
			fr.tpanic("explicit", CStr("close of closed channel"))
		}
		ch.closed = true
		in.emit("chan.close", fmt.Sprintf("chan#%d", ch.id))
		return nil
	case "print", "println":
		return nil
	case "recover":
		if fr.caller != nil && fr.caller.panicking && fr.caller.panicVal != nil && fr.caller.panicVal.kind == "goexit" {
			return Iface{} // Goexit is not a panic: recover returns nil and the exit goes on
		}
		if fr.caller != nil && fr.caller.panicking {
			fr.caller.panicking = false
			p := fr.caller.panicVal
			fr.caller.panicVal = nil
			fr.caller.recovered = true
			in.path.events = append(in.path.events, Event{Kind: "recovered", Args: []string{p.site, p.kind}})
			if iv, ok := p.v.(Iface); ok {
				return iv
			}
			return Iface{T: types.Typ[types.String], V: p.v}
		}
		return Iface{}
	case "ssa:wrapnilchk":
		if p, _ := args[0].(*Value); p == nil {
			fr.tpanic("nil-deref", in.runtimeError("value method called using nil pointer"))
		}
		return args[0]
	case "min", "max":
		in.unsupported("builtin %s", b.Name())
	}
	panic(fmt.Sprintf("builtin %s on %T", b.Name(), args[0]))
}

func (in *Interp) sliceToSym(fr *frame, v Value) (Str, bool) {
	switch s := v.(type) {
	case SymBytes:
		return s.s, true
	case Str:
		return s, true
	case Slice:
		if s.symLen != nil {
			return Str{}, false
		}
		if s.arr == nil {
			return Str{}, true
		}
		for _, e := range (*s.arr)[s.off : s.off+s.n] {
			switch e.(type) {
			case Int, *Term:
			default:
				return Str{}, false
			}
		}
		return strFromValues((*s.arr)[s.off : s.off+s.n]), true
	}
	return Str{}, false
}

func (in *Interp) appendOp(fr *frame, a, b Value) Value {
	// b elements
	var elems []Value
	switch t := b.(type) {
	case Slice:
		if t.symLen != nil {
			in.unsupported("append of symbolic-length slice at %s", fr.where())
		}
		if t.arr != nil {
			for i := 0; i < t.n; i++ {
				elems = append(elems, in.load(&(*t.arr)[t.off+i]))
			}
		}
	case SymBytes, Str:
		var s Str
		if sb, ok := t.(SymBytes); ok {
			s = sb.s
		} else {
			s = t.(Str)
		}
		vals, ok := valuesOfStr(s)
		if !ok {
			// symbolic length: result becomes an immutable symbolic byte string
			as, ok2 := in.sliceToSym(fr, a)
			if !ok2 {
				in.unsupported("append(symbolic-length bytes) to non-byte slice")
			}
			return SymBytes{s: concatStr(as, s)}
		}
		elems = vals
	default:
		panic(fmt.Sprintf("append: bad second arg %T", b))
	}
	if sb, ok := a.(SymBytes); ok {
		return SymBytes{s: concatStr(sb.s, strFromValues(elems))}
	}
	s := a.(Slice)
	if s.symLen != nil {
		n := in.concretize(s.symLen, "append to symbolic-length slice")
		s = Slice{arr: s.arr, off: s.off, n: n, cp: s.cp}
	}
	if len(elems) == 0 {
		return s
	}
	need := s.n + len(elems)
	if s.arr != nil && need <= s.cp {
		for i, e := range elems {
			in.store(&(*s.arr)[s.off+s.n+i], e) // a write to the element cell (tracked cells record it)
		}
		return Slice{arr: s.arr, off: s.off, n: need, cp: s.cp}
	}
	ncap := s.cp * 2
	if ncap < need {
		ncap = need
	}
	arr := make([]Value, ncap)
	if s.arr != nil {
		for i := 0; i < s.n; i++ {
			arr[i] = (*s.arr)[s.off+i]
		}
	}
	for i, e := range elems {
		arr[s.n+i] = e
	}
	// zero fill the rest with a copy of an element-shaped zero (unknown type: use nil-safe zero of first elem)
	for i := need; i < ncap; i++ {
		arr[i] = zeroLike(elems[0])
	}
	return Slice{arr: &arr, n: need, cp: ncap}
}

func zeroLike(v Value) Value {
	switch x := v.(type) {
	case Int, *Term:
		if t, ok := x.(*Term); ok && t.sort.K == SBool {
			return false
		}
		return Int(0)
	case bool:
		return false
	case Str:
		return Str{}
	case *Value:
		return (*Value)(nil)
	case Iface, *SymIface:
		return Iface{}
	case Slice, SymBytes:
		return Slice{}
	case *Map:
		return (*Map)(nil)
	case Struct:
		z := make(Struct, len(x))
		for i := range x {
			z[i] = zeroLike(x[i])
		}
		return z
	case Array:
		z := make(Array, len(x))
		for i := range x {
			z[i] = zeroLike(x[i])
		}
		return z
	case float64:
		return float64(0)
	}
	return nil
}

func (in *Interp) copyOp(fr *frame, dst, src Value) Value {
	d, ok := dst.(Slice)
	if !ok || d.symLen != nil {
		in.unsupported("copy into %T", dst)
	}
	var elems []Value
	switch s := src.(type) {
	case Slice:
		if s.symLen != nil {
			in.unsupported("copy from symbolic-length slice")
		}
		if s.arr != nil {
			elems = append(elems, (*s.arr)[s.off:s.off+s.n]...)
		}
	case SymBytes, Str:
		var st Str
		if sb, ok := s.(SymBytes); ok {
			st = sb.s
		} else {
			st = s.(Str)
		}
		vals, ok := valuesOfStr(st)
		if !ok {
			in.unsupported("copy from symbolic-length bytes")
		}
		elems = vals
	}
	n := len(elems)
	if d.n < n {
		n = d.n
	}
	for i := 0; i < n; i++ {
		(*d.arr)[d.off+i] = copyVal(elems[i])
	}
	return Int(n)
}

// ------------------------------------------------------------------
// goroutines: see sched.go

func (in *Interp) spawn(fr *frame, fn Value, args []Value) {
	name := "go"
	switch f := fn.(type) {
	case *ssa.Function:
		name = f.String()
	case *Closure:
		name = f.Fn.String()
	}
	in.spawnThread(fr, fn, args, name)
}

// runPending: let every other runnable thread run until it blocks or ends.
func (in *Interp) runPending(fr *frame) {
	if in.cur == nil {
		return
	}
	self := in.cur.id
	in.block("run-pending", func() bool { return !in.othersRunnable(self) })
}

var _ = utf8.RuneError

// mapSetSym: m[k] = v where k (or some key already in m) is symbolic.  Key
// identity is decided entry by entry with the solver (one fork per entry that
// may equal k); a key equal to none of the entries is appended.
func (in *Interp) mapSetSym(m *Map, k, v Value, keyT types.Type) bool {
	if !(isString(keyT) || isInteger(keyT)) {
		return false
	}
	i, found := in.mapFindSym(m, k, keyT)
	if found {
		m.vals[i] = v
		return true
	}
	if hk, ok := hashKey(k); ok {
		m.index[hk] = len(m.keys)
	} else {
		m.hasSym = true
	}
	m.keys = append(m.keys, k)
	m.vals = append(m.vals, v)
	m.live = append(m.live, true)
	return true
}

func (in *Interp) mapFindSym(m *Map, k Value, keyT types.Type) (int, bool) {
	for i := range m.keys {
		if !m.live[i] {
			continue
		}
		var c Value
		if isString(keyT) {
			c = in.strEq(m.keys[i].(Str), k.(Str))
		} else {
			c = in.eqVal(m.keys[i], k)
		}
		if b, ok := c.(bool); ok {
			if b {
				return i, true
			}
			continue
		}
		if in.branch(c, "map key identity") {
			return i, true
		}
	}
	return -1, false
}

// mapDeleteSym: delete(m, k) with symbolic key identity.
func (in *Interp) mapDeleteSym(m *Map, k Value, keyT types.Type) bool {
	if !(isString(keyT) || isInteger(keyT)) {
		return false
	}
	if i, found := in.mapFindSym(m, k, keyT); found {
		m.live[i] = false
		if hk, ok := hashKey(m.keys[i]); ok {
			delete(m.index, hk)
		}
	}
	return true
}
