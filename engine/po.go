package main

// Layer PO: partial-order (maximal-causal-model) analysis of a recorded
// multi-thread trace.  Every event gets an integer clock; the constraints
// below admit exactly the reorderings of the same events in which every
// thread sees the same values (program order, spawn order, mutual exclusion,
// WaitGroup counting, context cancellation, environment causality, read-from
// for tracked shared locations).  Ordering and race questions are SMT
// queries over these clocks.

import (
	"fmt"
	"os"
	"sort"
	"strconv"
	"strings"
)

type PO struct {
	ev    []Event
	sol   *Solver
	base  []string
	rf    map[int][]string // read event -> its read-from constraints (left out when the read itself is the subject of a race query)
	skip  map[int]bool
	stats struct{ queries, sat, unsat, unknown int }
}

func clock(i int) string { return fmt.Sprintf("c%d", i) }

func lt(a, b int) string { return fmt.Sprintf("(< c%d c%d)", a, b) }

func NewPO(events []Event, sol *Solver) *PO {
	p := &PO{ev: events, sol: sol, rf: map[int][]string{}, skip: map[int]bool{}}
	p.build()
	// the base constraints stay asserted for all queries on this trace
	p.sol.Send("(push)")
	p.sol.Send(p.base...)
	return p
}

// Close drops the trace's constraints.
func (p *PO) Close() { p.sol.Send("(pop)") }

func (p *PO) find(pred func(e Event) bool) []int {
	var out []int
	for i, e := range p.ev {
		if pred(e) {
			out = append(out, i)
		}
	}
	return out
}

func kindIs(kind string, args ...string) func(Event) bool {
	return func(e Event) bool {
		if e.Kind != kind {
			return false
		}
		for i, a := range args {
			if a == "*" {
				continue
			}
			if i >= len(e.Args) || e.Args[i] != a {
				return false
			}
		}
		return true
	}
}

func ex(i int) string { return fmt.Sprintf("x%d", i) }

// build emits the constraints of a PARTIAL execution of the recorded events:
// x_i says whether event i is executed, c_i is its clock.  The executed
// events are prefix-closed per thread and every executed event sees what it
// saw in the recorded run.
func (p *PO) build() {
	n := len(p.ev)
	add := func(s string) { p.base = append(p.base, s) }
	for i := 0; i < n; i++ {
		add(fmt.Sprintf("(declare-const c%d Int)", i))
		add(fmt.Sprintf("(declare-const x%d Bool)", i))
		add(fmt.Sprintf("(assert (>= c%d 0))", i))
	}
	both := func(a, b int, body string) string {
		return fmt.Sprintf("(=> (and x%d x%d) %s)", a, b, body)
	}
	// program order, prefix closure
	last := map[int]int{}
	for i, e := range p.ev {
		if j, ok := last[e.Tid]; ok {
			add(fmt.Sprintf("(assert (=> x%d (and x%d %s)))", i, j, lt(j, i)))
		}
		last[e.Tid] = i
	}
	// spawn order
	firstOf := map[int]int{}
	for i, e := range p.ev {
		if _, ok := firstOf[e.Tid]; !ok {
			firstOf[e.Tid] = i
		}
	}
	for i, e := range p.ev {
		if e.Kind == "spawn" && len(e.Args) > 0 {
			if child, err := strconv.Atoi(e.Args[0]); err == nil {
				if f, ok := firstOf[child]; ok {
					add(fmt.Sprintf("(assert (=> x%d (and x%d %s)))", f, i, lt(i, f)))
				}
			}
		}
	}
	// mutual exclusion
	type sect struct {
		l, u  int
		tid   int
		write bool
	}
	sections := map[string][]sect{}
	open := map[string]map[int][]sect{}
	for i, e := range p.ev {
		switch e.Kind {
		case "lock", "rlock":
			m := e.Args[0]
			if open[m] == nil {
				open[m] = map[int][]sect{}
			}
			open[m][e.Tid] = append(open[m][e.Tid], sect{l: i, u: -1, tid: e.Tid, write: e.Kind == "lock"})
		case "unlock", "runlock":
			m := e.Args[0]
			st := open[m][e.Tid]
			if len(st) > 0 {
				s := st[len(st)-1]
				open[m][e.Tid] = st[:len(st)-1]
				s.u = i
				sections[m] = append(sections[m], s)
			}
		}
	}
	for m, byTid := range open {
		for _, st := range byTid {
			for _, s := range st {
				sections[m] = append(sections[m], s)
			}
		}
	}
	for _, ss := range sections {
		for a := 0; a < len(ss); a++ {
			for b := a + 1; b < len(ss); b++ {
				x, y := ss[a], ss[b]
				if x.tid == y.tid || (!x.write && !y.write) {
					continue
				}
				var alts []string
				if x.u >= 0 {
					alts = append(alts, fmt.Sprintf("(and x%d %s)", x.u, lt(x.u, y.l)))
				}
				if y.u >= 0 {
					alts = append(alts, fmt.Sprintf("(and x%d %s)", y.u, lt(y.u, x.l)))
				}
				if len(alts) == 0 {
					add("(assert " + both(x.l, y.l, "false") + ")")
				} else {
					add("(assert " + both(x.l, y.l, "(or "+strings.Join(alts, " ")+")") + ")")
				}
			}
		}
	}
	// wait groups
	wgOps := map[string][]int{}
	for i, e := range p.ev {
		switch e.Kind {
		case "wg.add", "wg.done":
			wgOps[e.Args[0]] = append(wgOps[e.Args[0]], i)
		}
	}
	delta := func(i int) int {
		e := p.ev[i]
		if e.Kind == "wg.done" {
			return -1
		}
		d, _ := strconv.Atoi(e.Args[1])
		return d
	}
	for i, e := range p.ev {
		if e.Kind == "wg.wait" {
			ops := wgOps[e.Args[0]]
			if len(ops) == 0 {
				continue
			}
			var terms []string
			for _, o := range ops {
				terms = append(terms, fmt.Sprintf("(ite (and x%d (< c%d c%d)) %d 0)", o, o, i, delta(o)))
			}
			add(fmt.Sprintf("(assert (=> x%d (= 0 (+ 0 %s))))", i, strings.Join(terms, " ")))
		}
	}
	for _, ops := range wgOps {
		for _, d := range ops {
			if p.ev[d].Kind != "wg.done" {
				continue
			}
			var terms []string
			for _, o := range ops {
				if o == d {
					continue
				}
				terms = append(terms, fmt.Sprintf("(ite (and x%d (< c%d c%d)) %d 0)", o, o, d, delta(o)))
			}
			add(fmt.Sprintf("(assert (=> x%d (>= (+ -1 0 %s) 0)))", d, strings.Join(terms, " ")))
		}
	}
	// context cancellation
	cancels := map[string][]int{}
	for i, e := range p.ev {
		if e.Kind == "cancel" {
			cancels[e.Args[0]] = append(cancels[e.Args[0]], i)
		}
	}
	for i, e := range p.ev {
		if e.Kind != "poll" {
			continue
		}
		cs := cancels[e.Args[0]]
		if e.Args[1] == "true" {
			var alts []string
			for _, c := range cs {
				alts = append(alts, fmt.Sprintf("(and x%d %s)", c, lt(c, i)))
			}
			if len(alts) == 0 {
				add(fmt.Sprintf("(assert (not x%d))", i))
			} else {
				add(fmt.Sprintf("(assert (=> x%d (or %s)))", i, strings.Join(alts, " ")))
			}
		} else {
			for _, c := range cs {
				add("(assert " + both(i, c, lt(i, c)) + ")")
			}
		}
	}
	// environment causality
	after := func(kindA string, matchA func(a, b Event) bool, kindB string) {
		for i, b := range p.ev {
			if b.Kind != kindB {
				continue
			}
			var alts []string
			for j, a := range p.ev {
				if a.Kind == kindA && matchA(a, b) {
					alts = append(alts, fmt.Sprintf("(and x%d %s)", j, lt(j, i)))
				}
			}
			if len(alts) > 0 {
				add(fmt.Sprintf("(assert (=> x%d (or %s)))", i, strings.Join(alts, " ")))
			}
		}
	}
	same0 := func(a, b Event) bool { return len(a.Args) > 0 && len(b.Args) > 0 && a.Args[0] == b.Args[0] }
	anyEv := func(a, b Event) bool { return true }
	after("env.connect", same0, "accept")
	after("listener.close", anyEv, "accept.closed")
	after("setReadDeadline", same0, "read.timeout")
	after("gate.open", same0, "gate.pass")
	after("listen.ok", anyEv, "accept")
	after("chan.close", same0, "chan.recv")
	for i, e := range p.ev {
		if e.Kind == "accept" && !(len(e.Args) > 1 && e.Args[1] == "late") {
			for j, c := range p.ev {
				if c.Kind == "listener.close" {
					add("(assert " + both(i, j, lt(i, j)) + ")")
				}
			}
		}
	}
	// read-from for tracked shared locations
	writers := map[string][]int{}
	for i, e := range p.ev {
		if e.Kind == "wr" {
			writers[e.Args[0]] = append(writers[e.Args[0]], i)
		}
	}
	for i, e := range p.ev {
		if e.Kind != "rd" {
			continue
		}
		ws := writers[e.Args[0]]
		if len(ws) == 0 {
			continue
		}
		var cands, others []int
		for _, w := range ws {
			if p.ev[w].Args[1] == e.Args[1] {
				cands = append(cands, w)
			} else {
				others = append(others, w)
			}
		}
		if len(cands) == 0 {
			for _, w := range others {
				p.rf[i] = append(p.rf[i], "(assert "+both(i, w, lt(i, w))+")")
			}
			continue
		}
		var alts []string
		for _, w := range cands {
			conj := []string{ex(w), lt(w, i)}
			for _, o := range others {
				conj = append(conj, fmt.Sprintf("(or (not x%d) %s %s)", o, lt(o, w), lt(i, o)))
			}
			alts = append(alts, "(and "+strings.Join(conj, " ")+")")
		}
		p.rf[i] = append(p.rf[i], fmt.Sprintf("(assert (=> x%d (or %s)))", i, strings.Join(alts, " ")))
	}
}

// All asserts that every listed event is executed.
func (p *PO) All(idx ...int) []string {
	var out []string
	for _, i := range idx {
		out = append(out, ex(i))
	}
	return out
}

// Query asks whether the base constraints plus extra are satisfiable; on sat
// the witnessing total order of events is returned.
func (p *PO) Query(extra ...string) (Verdict, []int) {
	p.sol.Send("(push)")
	for i, cs := range p.rf {
		if !p.skip[i] {
			p.sol.Send(cs...)
		}
	}
	for _, x := range extra {
		p.sol.Send("(assert " + x + ")")
	}
	v := p.sol.CheckSat()
	p.stats.queries++
	var order []int
	switch v {
	case Sat:
		p.stats.sat++
		var exprs []string
		for i := range p.ev {
			exprs = append(exprs, clock(i))
		}
		for i := range p.ev {
			exprs = append(exprs, ex(i))
		}
		if vals, ok := p.sol.GetValue(exprs); ok {
			type kv struct {
				i int
				c int64
			}
			var ks []kv
			for i := range p.ev {
				if strings.TrimSpace(vals[len(p.ev)+i]) != "true" {
					continue // not executed in the witness
				}
				c, _ := parseIntValue(vals[i])
				ks = append(ks, kv{i, c})
			}
			sort.SliceStable(ks, func(a, b int) bool { return ks[a].c < ks[b].c })
			for _, k := range ks {
				order = append(order, k.i)
			}
		}
	case Unsat:
		p.stats.unsat++
	default:
		p.stats.unknown++
	}
	p.sol.Send("(pop)")
	return v, order
}

func (p *PO) Describe(order []int) []string {
	var out []string
	for _, i := range order {
		e := p.ev[i]
		out = append(out, fmt.Sprintf("T%d %s %s", e.Tid, e.Kind, strings.Join(e.Args, " ")))
	}
	return out
}

// RacePairs returns the conflicting tracked accesses that can coincide.
type Race struct {
	A, B  int
	Loc   string
	Order []int
}

func (p *PO) Races(ignore func(loc string) bool) ([]Race, int) {
	byLoc := map[string][]int{}
	for i, e := range p.ev {
		if e.Kind == "rd" || e.Kind == "wr" || e.Kind == "sema.rd" || e.Kind == "sema.wr" {
			byLoc[e.Args[0]] = append(byLoc[e.Args[0]], i)
		}
	}
	var out []Race
	checked := 0
	seen := map[string]bool{}
	for loc, idx := range byLoc {
		if ignore != nil && ignore(loc) {
			continue
		}
		for a := 0; a < len(idx); a++ {
			for b := a + 1; b < len(idx); b++ {
				x, y := p.ev[idx[a]], p.ev[idx[b]]
				if x.Tid == y.Tid || (strings.HasSuffix(x.Kind, "rd") && strings.HasSuffix(y.Kind, "rd")) {
					continue
				}
				key := fmt.Sprintf("%s|%d%s|%d%s", loc, x.Tid, x.Kind, y.Tid, y.Kind)
				if seen[key] {
					continue
				}
				checked++
				// the two accesses themselves need not keep their observed values
				p.skip = map[int]bool{idx[a]: true, idx[b]: true}
				v, order := p.Query(ex(idx[a]), ex(idx[b]), fmt.Sprintf("(= c%d c%d)", idx[a], idx[b]))
				p.skip = map[int]bool{}
				if os.Getenv("GOSYM_DEBUG") != "" {
					fmt.Fprintf(os.Stderr, "RACEQ %s %d(T%d %s) %d(T%d %s) -> %v\n", loc, idx[a], x.Tid, x.Kind, idx[b], y.Tid, y.Kind, v)
				}
				if v == Sat {
					seen[key] = true
					out = append(out, Race{A: idx[a], B: idx[b], Loc: loc, Order: order})
				}
			}
		}
	}
	return out, checked
}
