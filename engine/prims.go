package main

// Harness primitives (v*): intercepted by name; their Go bodies in
// /verif/harness are used only by the native replay.

import (
	"fmt"
	"go/types"
	"os"
	"strings"
	"sync/atomic"
)

var gCrossChecked, gCrossDisagree int64

func (in *Interp) inputVar(name, kind string, sort Sort) *Term {
	t := in.tt.Var(name, sort)
	for _, iv := range in.path.inputs {
		if iv.Name == name {
			return t
		}
	}
	in.path.inputs = append(in.path.inputs, InputVar{Name: name, Kind: kind, T: t})
	return t
}

func (in *Interp) inputStr(name string) Str {
	a := in.tt.Var(name, SeqSort)
	l := in.tt.Var(name+".len", BV(64))
	for _, iv := range in.path.inputs {
		if iv.Name == name {
			return Str{p: []piece{{k: pkAtom, t: a, n: l}}}
		}
	}
	in.path.inputs = append(in.path.inputs, InputVar{Name: name, Kind: "str", T: a, L: l})
	// the tie (seq.len a) = l is NOT asserted during exploration (bv2nat makes
	// every solver time out); it is imposed when a model is confirmed (confirmModel)
	in.assume(in.tt.BVCmp("bvult", l, in.tt.BVConst(1<<31, 64)))
	return Str{p: []piece{{k: pkAtom, t: a, n: l}}}
}

func concName(v Value) string {
	c, _ := v.(Str).Concrete()
	return c
}

func registerHarnessIntrinsics() {
	reg := func(name string, f intrinsicFn) {
		intrinsics[gldapPath+"."+name] = f
		intrinsics[testdirPath+"."+name] = f
	}
	reg("vBool", func(in *Interp, fr *frame, args []Value) (Value, bool) {
		return in.inputVar(concName(args[0]), "bool", BoolSort), true
	})
	intVar := func(kind string, w int) intrinsicFn {
		return func(in *Interp, fr *frame, args []Value) (Value, bool) {
			return in.inputVar(concName(args[0]), kind, BV(w)), true
		}
	}
	reg("vI64", intVar("bv64", 64))
	reg("vU64", intVar("bv64", 64))
	reg("vInt", intVar("bv64", 64))
	reg("vU32", intVar("bv32", 32))
	reg("vU16", intVar("bv16", 16))
	reg("vU8", intVar("bv8", 8))
	reg("vStr", func(in *Interp, fr *frame, args []Value) (Value, bool) {
		return in.inputStr(concName(args[0])), true
	})
	reg("vBytes", func(in *Interp, fr *frame, args []Value) (Value, bool) {
		return SymBytes{s: in.inputStr(concName(args[0]))}, true
	})
	reg("vLen", func(in *Interp, fr *frame, args []Value) (Value, bool) {
		name := concName(args[0])
		max := in.concreteInt(fr, args[1], "vLen max")
		t := in.inputVar(name, "bv64", BV(64))
		conds := make([]*Term, max+1)
		for i := 0; i <= max; i++ {
			conds[i] = in.tt.Eq(t, in.tt.BVConst(uint64(i), 64))
		}
		v := in.fork(conds, "vLen "+name)
		if in.path.choices == nil {
			in.path.choices = map[string][2]int{}
		}
		in.path.choices[name] = [2]int{v, max}
		return Int(v), true
	})
	reg("vPacket", func(in *Interp, fr *frame, args []Value) (Value, bool) {
		name := concName(args[0])
		depth := in.concreteInt(fr, args[1], "vPacket depth")
		widths, def := parseWidths(concName(args[2]))
		n := in.newSymNode(name, "", depth, widths, def)
		in.roots = append(in.roots, n)
		return n.cell, true
	})
	reg("vWire", func(in *Interp, fr *frame, args []Value) (Value, bool) {
		p, _ := args[0].(*Value)
		if p == nil {
			return (*Value)(nil), true
		}
		return in.wireCopy(fr, p), true
	})
	reg("vAssume", func(in *Interp, fr *frame, args []Value) (Value, bool) {
		switch c := args[0].(type) {
		case bool:
			if !c {
				in.end("assume", "assumption false")
			}
		case *Term:
			if in.checkWith(c) == Unsat {
				in.end("assume", "assumption infeasible")
			}
			in.assume(c)
		}
		return nil, true
	})
	reg("vAssert", func(in *Interp, fr *frame, args []Value) (Value, bool) {
		in.obligation(fr, args[0], concName(args[1]))
		return nil, true
	})
	reg("vAssertE", func(in *Interp, fr *frame, args []Value) (Value, bool) {
		in.obligation(fr, args[0], "E:"+concName(args[1]))
		return nil, true
	})
	reg("vReach", func(in *Interp, fr *frame, args []Value) (Value, bool) {
		in.path.reached = append(in.path.reached, concName(args[0]))
		return nil, true
	})
	reg("vEvent", func(in *Interp, fr *frame, args []Value) (Value, bool) {
		var as []string
		for _, a := range variadicArgs(args[1]) {
			if n, ok := in.toNative(a); ok {
				as = append(as, fmt.Sprint(n))
			} else {
				as = append(as, "<sym>")
			}
		}
		in.emit("h:"+concName(args[0]), as...)
		return nil, true
	})
	reg("vDump", func(in *Interp, fr *frame, args []Value) (Value, bool) {
		if os.Getenv("GOSYM_DEBUG") != "" {
			fmt.Fprintf(os.Stderr, "DUMP %v %s: %v\n", in.path.taken, concName(args[0]), args[1])
		}
		return nil, true
	})
	reg("vFoldEq", func(in *Interp, fr *frame, args []Value) (Value, bool) {
		a, b := strArg(args[0]), strArg(args[1])
		ca, ok1 := a.Concrete()
		cb, ok2 := b.Concrete()
		if ok1 && ok2 {
			return strings.EqualFold(ca, cb), true
		}
		return in.equalFold(fr, a, b), true
	})
	// ---- threads ----
	reg("vQuiesce", func(in *Interp, fr *frame, args []Value) (Value, bool) {
		// wait until no other thread can make progress
		if in.cur != nil {
			self := in.cur.id
			in.block("quiesce", func() bool { return !in.othersRunnable(self) })
		}
		return nil, true
	})
	reg("vYield", func(in *Interp, fr *frame, args []Value) (Value, bool) {
		in.preempt()
		return nil, true
	})
	reg("vBlockedThreads", func(in *Interp, fr *frame, args []Value) (Value, bool) {
		n := 0
		for _, t := range in.threads {
			if t.state == tsBlocked && t != in.cur {
				n++
			}
		}
		return Int(n), true
	})
	reg("vSchedFork", func(in *Interp, fr *frame, args []Value) (Value, bool) {
		in.schedLevel = in.concreteInt(fr, args[0], "vSchedFork")
		in.schedFork = in.schedLevel > 0
		return nil, true
	})
	reg("vSchedFilter", func(in *Interp, fr *frame, args []Value) (Value, bool) {
		in.schedFilter = concName(args[0])
		return nil, true
	})
	reg("vPreemptBudget", func(in *Interp, fr *frame, args []Value) (Value, bool) {
		in.preemptBudget = in.concreteInt(fr, args[0], "vPreemptBudget")
		return nil, true
	})
	reg("vGate", func(in *Interp, fr *frame, args []Value) (Value, bool) {
		o := in.newObj("gate")
		o.F["name"] = args[0]
		cell := new(Value)
		*cell = o
		return cell, true
	})
	gate := func(v Value) *Obj { return (*(v.(*Value))).(*Obj) }
	reg("vGateOpen", func(in *Interp, fr *frame, args []Value) (Value, bool) {
		g := gate(args[0])
		g.b = true
		in.emit("gate.open", concName(g.F["name"]))
		return nil, true
	})
	reg("vGateWait", func(in *Interp, fr *frame, args []Value) (Value, bool) {
		g := gate(args[0])
		in.emit("gate.wait", concName(g.F["name"]))
		in.block("gate "+concName(g.F["name"]), func() bool { return g.b })
		in.emit("gate.pass", concName(g.F["name"]))
		return nil, true
	})
	reg("vTrack", func(in *Interp, fr *frame, args []Value) (Value, bool) {
		it := args[0].(Iface)
		p, _ := it.V.(*Value)
		if p != nil {
			in.trackStruct(p, concName(args[1]), it.T)
		}
		return nil, true
	})
	reg("vCertPoolSize", func(in *Interp, fr *frame, args []Value) (Value, bool) {
		p, _ := args[0].(*Value)
		if p == nil {
			return Int(0), true
		}
		return Int(in.sideObj(p, "certpool").n), true
	})
	reg("vTimePasses", func(in *Interp, fr *frame, args []Value) (Value, bool) {
		in.clockEpoch++
		in.emit("time.passes")
		return nil, true
	})
	reg("vIssuedSigners", func(in *Interp, fr *frame, args []Value) (Value, bool) {
		return Int(in.issuedSigners), true
	})
	reg("vIssuedLeaves", func(in *Interp, fr *frame, args []Value) (Value, bool) {
		return Int(in.issuedLeaves), true
	})
	reg("vTrackElems", func(in *Interp, fr *frame, args []Value) (Value, bool) {
		// track the element cells of a slice's backing array (up to its capacity)
		it := args[0].(Iface)
		if sl, ok := it.V.(Slice); ok && sl.arr != nil {
			if in.tracked == nil {
				in.tracked = map[*Value]string{}
			}
			for i := 0; i < sl.cp && sl.off+i < len(*sl.arr); i++ {
				in.tracked[&(*sl.arr)[sl.off+i]] = fmt.Sprintf("%s[%d]", concName(args[1]), i)
			}
		}
		return nil, true
	})
	reg("vIsEngine", func(in *Interp, fr *frame, args []Value) (Value, bool) { return true, true })
	reg("vLateSched", func(in *Interp, fr *frame, args []Value) (Value, bool) {
		in.lateSched = true
		return nil, true
	})
	reg("vRunPending", func(in *Interp, fr *frame, args []Value) (Value, bool) {
		in.runPending(fr)
		return nil, true
	})
	reg("vSummarise", func(in *Interp, fr *frame, args []Value) (Value, bool) {
		n := concName(args[0])
		if len(n) > 0 && n[0] == '-' {
			delete(in.summaries, n[1:])
		} else {
			in.summaries[n] = true
		}
		return nil, true
	})
	reg("vLogger", func(in *Interp, fr *frame, args []Value) (Value, bool) {
		return in.ifaceOf(in.newObj("logger")), true
	})
	reg("vLoggerAt", func(in *Interp, fr *frame, args []Value) (Value, bool) {
		o := in.newObj("logger")
		o.F["debug"] = args[0]
		return in.ifaceOf(o), true
	})
	reg("vCrashed", func(in *Interp, fr *frame, args []Value) (Value, bool) {
		return Int(len(in.crashes)), true
	})
	reg("vPermute", func(in *Interp, fr *frame, args []Value) (Value, bool) {
		in.permute = concName(args[0])
		return nil, true
	})

	// ---- connection stub ----
	reg("vNetConn", func(in *Interp, fr *frame, args []Value) (Value, bool) {
		o := in.newObj("netconn")
		o.F["name"] = args[0]
		in.conns = append(in.conns, o)
		return in.ifaceOf(o), true
	})
	conn := func(in *Interp, v Value) *Obj {
		r, _ := in.rawConn(v)
		if r == nil {
			in.unsupported("not a connection stub")
		}
		return r
	}
	reg("vConnFeed", func(in *Interp, fr *frame, args []Value) (Value, bool) {
		o := conn(in, args[0])
		p, _ := args[1].(*Value)
		o.feed = append(o.feed, feedItem{kind: "packet", pkt: p})
		return nil, true
	})
	reg("vConnFeedErr", func(in *Interp, fr *frame, args []Value) (Value, bool) {
		o := conn(in, args[0])
		o.feed = append(o.feed, feedItem{kind: "error", err: in.newError(args[1].(Str), nil)})
		return nil, true
	})
	reg("vConnFeedRaw", func(in *Interp, fr *frame, args []Value) (Value, bool) {
		o := conn(in, args[0])
		o.feed = append(o.feed, feedItem{kind: "raw", err: args[1].(Str)})
		return nil, true
	})
	reg("vConnFeedEOF", func(in *Interp, fr *frame, args []Value) (Value, bool) {
		o := conn(in, args[0])
		o.feed = append(o.feed, feedItem{kind: "eof"})
		return nil, true
	})
	reg("vConnFeedBlock", func(in *Interp, fr *frame, args []Value) (Value, bool) {
		o := conn(in, args[0])
		o.feed = append(o.feed, feedItem{kind: "block"})
		return nil, true
	})
	reg("vConnFeedCall", func(in *Interp, fr *frame, args []Value) (Value, bool) {
		o := conn(in, args[0])
		o.feed = append(o.feed, feedItem{kind: "call", fn: args[1]})
		return nil, true
	})
	reg("vConnWritten", func(in *Interp, fr *frame, args []Value) (Value, bool) {
		return SymBytes{s: conn(in, args[0]).str}, true
	})
	reg("vConnWrites", func(in *Interp, fr *frame, args []Value) (Value, bool) {
		return Int(len(conn(in, args[0]).items2)), true
	})
	reg("vConnWriteN", func(in *Interp, fr *frame, args []Value) (Value, bool) {
		o := conn(in, args[0])
		i := in.concreteInt(fr, args[1], "vConnWriteN")
		if i < 0 || i >= len(o.items2) {
			return SymBytes{}, true
		}
		return SymBytes{s: o.items2[i].s}, true
	})
	reg("vConnWriteLayer", func(in *Interp, fr *frame, args []Value) (Value, bool) {
		o := conn(in, args[0])
		i := in.concreteInt(fr, args[1], "vConnWriteLayer")
		if i < 0 || i >= len(o.items2) {
			return CStr(""), true
		}
		return CStr(o.items2[i].layer), true
	})
	reg("vConnClosed", func(in *Interp, fr *frame, args []Value) (Value, bool) {
		o := conn(in, args[0])
		if v, ok := o.F["closed"].(Int); ok {
			return v, true
		}
		return Int(0), true
	})
	reg("vConnFramesRead", func(in *Interp, fr *frame, args []Value) (Value, bool) {
		return Int(conn(in, args[0]).framesRead), true
	})
	reg("vConnSet", func(in *Interp, fr *frame, args []Value) (Value, bool) {
		// vConnSet(nc, key, boolValue): writeFail, tlsOK, closeErr, deadlineErr, tlsOnly
		o := conn(in, args[0])
		o.F[concName(args[1])] = args[2]
		return nil, true
	})
	reg("vEnvSet", func(in *Interp, fr *frame, args []Value) (Value, bool) {
		in.env.F[concName(args[0])] = args[1]
		return nil, true
	})
	reg("vEnvAccept", func(in *Interp, fr *frame, args []Value) (Value, bool) {
		in.env.accepts = append(in.env.accepts, feedItem{kind: "conn", err: args[0]})
		in.emit("env.connect", in.connName(args[0]))
		return nil, true
	})
	reg("vEnvAcceptErr", func(in *Interp, fr *frame, args []Value) (Value, bool) {
		e := in.newError(args[0].(Str), nil)
		in.env.accepts = append(in.env.accepts, feedItem{kind: "error", err: e})
		return nil, true
	})
	reg("vEnvAcceptTempErr", func(in *Interp, fr *frame, args []Value) (Value, bool) {
		e := in.newError(CStr("accept tcp: accept4: too many open files"), nil)
		errObj(e).F["Temporary"] = true
		in.env.accepts = append(in.env.accepts, feedItem{kind: "error", err: e})
		in.emit("env.accept-error")
		return nil, true
	})
	reg("vEnvAcceptCall", func(in *Interp, fr *frame, args []Value) (Value, bool) {
		in.env.accepts = append(in.env.accepts, feedItem{kind: "call", fn: args[0]})
		return nil, true
	})
	reg("vEnvListeners", func(in *Interp, fr *frame, args []Value) (Value, bool) {
		return Int(len(in.env.items)), true
	})
	reg("vLoopInit", func(in *Interp, fr *frame, args []Value) (Value, bool) {
		if in.loopInit == nil {
			in.loopInit = map[string]Value{}
		}
		in.loopInit[concName(args[0])+":"+concName(args[1])] = args[2]
		return nil, true
	})
	reg("vEnvListenAddr", func(in *Interp, fr *frame, args []Value) (Value, bool) {
		// the address the most recent successful net.Listen was given
		if n := len(in.env.items); n > 0 {
			if a, ok := in.env.items[n-1].(*Obj).F["addr"].(Str); ok {
				return a, true
			}
		}
		return CStr(""), true
	})
	reg("vEnvListenerOpen", func(in *Interp, fr *frame, args []Value) (Value, bool) {
		n := 0
		for _, l := range in.env.items {
			if !l.(*Obj).b {
				n++
			}
		}
		return Int(n), true
	})
	reg("vConnLayer", func(in *Interp, fr *frame, args []Value) (Value, bool) {
		// describes what a net.Conn / *bufio.Reader / *bufio.Writer value wraps
		return CStr(in.describeWrap(args[0])), true
	})
	reg("vTLSConfigOf", func(in *Interp, fr *frame, args []Value) (Value, bool) {
		// the *tls.Config a (TLS) connection or listener was created with; nil if plain
		return in.tlsConfigOf(args[0]), true
	})
	reg("vEvents", func(in *Interp, fr *frame, args []Value) (Value, bool) {
		// count of engine events of a given kind (and optional first arg)
		kind := concName(args[0])
		arg := concName(args[1])
		n := 0
		for _, e := range in.path.events {
			if e.Kind == kind && (arg == "" || (len(e.Args) > 0 && e.Args[0] == arg)) {
				n++
			}
		}
		return Int(n), true
	})
	reg("vEventIndex", func(in *Interp, fr *frame, args []Value) (Value, bool) {
		// index of the k-th event of the given kind/arg, -1 if none
		kind := concName(args[0])
		arg := concName(args[1])
		k := in.concreteInt(fr, args[2], "vEventIndex")
		for i, e := range in.path.events {
			if e.Kind == kind && (arg == "" || (len(e.Args) > 0 && e.Args[0] == arg)) {
				if k == 0 {
					return Int(i), true
				}
				k--
			}
		}
		return normInt(^uint64(0), 64, true), true
	})
}

func (in *Interp) describeWrap(v Value) string {
	switch x := v.(type) {
	case Iface:
		if x.T == nil {
			return "nil"
		}
		return in.describeWrap(x.V)
	case *Obj:
		if x.Kind == "netconn" {
			return "raw(" + in.connName(x) + ")"
		}
		if x.Kind == "multireader" {
			var ps []string
			for _, p := range x.items {
				ps = append(ps, in.describeWrap(p))
			}
			return "multi(" + strings.Join(ps, ",") + ")"
		}
		return x.Kind
	case *Value:
		if x == nil {
			return "nil"
		}
		if o := in.side[x]; o != nil {
			switch o.Kind {
			case "tlsconn":
				return "tls(" + in.describeWrap(o.F["raw"]) + ")"
			case "bufreader":
				return "reader(" + in.describeWrap(o.F["src"]) + ")"
			case "bytesreader":
				return "bytes"
			case "bufwriter":
				return "writer(" + in.describeWrap(o.F["dst"]) + ")"
			}
		}
	}
	return "?"
}

func (in *Interp) tlsConfigOf(v Value) Value {
	switch x := v.(type) {
	case Iface:
		if x.T == nil {
			return (*Value)(nil)
		}
		return in.tlsConfigOf(x.V)
	case *Obj:
		if x.Kind == "listener" {
			if c, ok := x.F["cfg"]; ok {
				return c
			}
		}
	case *Value:
		if x != nil {
			if o := in.side[x]; o != nil {
				switch o.Kind {
				case "tlsconn":
					return o.F["cfg"]
				case "bufreader":
					return in.tlsConfigOf(o.F["src"])
				case "bufwriter":
					return in.tlsConfigOf(o.F["dst"])
				}
			}
		}
	}
	return (*Value)(nil)
}

// obligation discharges one assertion: pc ∧ ¬c must be unsat.
func (in *Interp) obligation(fr *frame, c Value, label string) {
	ob := Obligation{Label: label, Site: fr.where()}
	switch x := c.(type) {
	case bool:
		if x {
			ob.Verdict = "concrete-true"
		} else {
			ob.Verdict = "concrete-false"
			in.violate("assert:"+label, label, "assertion is false on this path")
		}
	case *Term:
		v := in.checkWith(in.tt.Not(x))
		if v == Unsat && in.sol.mirror != nil {
			// thorough tier: the second solver must agree on every discharged obligation
			r := in.tt.Ref(in.tt.Not(x))
			in.flush()
			in.sol.Send("(push)", "(assert "+r+")")
			v2, ok := in.sol.CheckSatMirror()
			in.sol.Send("(pop)")
			if ok {
				atomic.AddInt64(&gCrossChecked, 1)
				if v2 == Sat {
					atomic.AddInt64(&gCrossDisagree, 1)
					v = Unknown
				}
			}
		}
		switch v {
		case Unsat:
			ob.Verdict = "unsat"
		case Sat:
			ob.Verdict = "sat"
			// capture a model with the negation asserted
			r := in.tt.Ref(in.tt.Not(x))
			in.flush()
			in.sol.Send("(push)", "(assert "+r+")")
			in.violateWithModel("assert:"+label, label, "assertion can fail")
			in.sol.Send("(pop)")
		default:
			ob.Verdict = "unknown"
		}
		// continue under the assertion
		if in.checkWith(x) == Unsat {
			in.path.oblig = append(in.path.oblig, ob)
			in.end("done", "assertion always fails")
		}
		in.assume(x)
	}
	in.path.oblig = append(in.path.oblig, ob)
}

func (in *Interp) violate(key, label, detail string) {
	in.violateWithModel(key, label, detail)
}

func (in *Interp) violateWithModel(key, label, detail string) {
	v := Violation{Key: key, Label: label, Detail: detail}
	if in.sol.CheckSat() == Sat {
		v.Model, v.HasModel = in.confirmModel(70000)
	}
	in.path.violations = append(in.path.violations, v)
}

var _ = types.Typ
