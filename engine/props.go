package main

import "fmt"

var tdOpaque = []string{"crypto/", "encoding/pem", "math/big", "github.com/stretchr/testify", "crypto"}

func properties() map[string]*PropertySpec {
	m := map[string]*PropertySpec{}
	add := func(p *PropertySpec) { m[p.ID] = p }

	add(&PropertySpec{ID: "C16",
		Functions: "ConvertString, readLength, SIDBytes, SIDBytesToString, NewEntry, NewEntryAttribute, AddValue, New*Response, NewControl*, Mux.{Bind,Search,ExtendedOperation,Modify,Add,Delete,Unbind,DefaultRoute}",
		Outside:   []string{"SIDBytesToString inputs longer than 16 bytes / more than 16 sub-authorities", "attribute maps with more than 3 keys; sort.Strings itself (stdlib)", "more than 3 options per constructor call"},
		Harnesses: []HarnessSpec{
			{Name: "H_C16_convert_total", Native: true, Reach: []string{"returned"}, Bound: "one unbounded symbolic string (< 2^31 bytes)"},
			{Name: "H_C16_convert_total2", Native: true, Tiers: "thorough", Reach: []string{"returned"}, Bound: "two unbounded symbolic strings"},
			{Name: "H_C16_convert_roundtrip", Native: true, Reach: []string{"roundtrip"}, Bound: "every string shorter than 2^31 bytes (all five length-octet classes)"},
			{Name: "H_C16_sid", Native: true, Reach: []string{"sid"}, Bound: "all 2^8 x 2^16 arguments"},
			{Name: "H_C16_sid_total", Native: true, Reach: []string{"returned"}, Bound: "arbitrary bytes, length <= 16", Tweak: func(c *HarnessCfg, tier string) { c.ConcretizeMax = 16 }},
			{Name: "H_C16_zeromux", Native: true, Reach: []string{"zero mux"}, Bound: "every kind of route registration on a zero-value Mux (not built by NewMux), then one request served"},
			{Name: "H_C16_entry", Native: true, Reach: []string{"entry"}, Bound: "<= 3 attributes, every iteration order, symbolic values"},
			{Name: "H_C16_responses", Native: true, Reach: []string{"constructed"}, Bound: "6 constructors x every sequence of <= 3 options drawn from 5 options and nil"},
			{Name: "H_C16_controls", Native: true, Reach: []string{"constructed"}, Bound: "7 constructors x every sequence of <= 3 options drawn from 5 options and nil; all uint values"},
			{Name: "H_C16_mux", Native: true, Reach: []string{"registered"}, Bound: "8 registration methods x nil/non-nil handler x <= 3 options"},
		}})
	c01 := func(name, reach, bound, tiers string) HarnessSpec {
		return HarnessSpec{Name: name, Native: true, Reach: []string{reach}, Bound: bound, Tiers: tiers}
	}
	add(&PropertySpec{ID: "C01",
		Functions: "newRequest, newMessage, (*packet).{requestType,requestMessageID,simpleBindParameters,searchParmeters,modifyParameters,addParameters,deleteParameters,extendedOperationName,controlPacket,assert}, decodeControl, decodeAttribute, ConvertString; reference client encoder (harness) through the asn1-ber constructors (real SSA)",
		Outside:   []string{"semantic equality of filters (go-ldap's compiler/decompiler: the check is that the decompiled text of exactly the client's filter node is stored unmodified)", "more than 1 control per message (2 on Delete), more than 3 requested attributes, 2 add attributes x 2 values, 2 changes x 2 values", "the client's own length/integer octets are summarised while the request is built (lemma ParseInt64(encodeInteger(x)) = x is discharged in C04); modify values are bounded to < 12 bytes because the real length encoder and ConvertString run on them"},
		Harnesses: []HarnessSpec{
			c01("H_C01_bind", "bind ok", "message ID 0..2^31-1, DN and password unbounded strings, <= 1 control of each of 12 kinds", ""),
			c01("H_C01_search", "search ok", "scope 0..2, deref 0..3, limits 0..2^31-1, <= 3 attributes, <= 1 control", ""),
			c01("H_C01_searchfilter", "search ok", "filter: present, or an attribute-value assertion (=, >=, <=, ~=) with a value of 1..2 arbitrary bytes; the expected text is go-ldap's DecompileFilter of that node (exact engine model for these shapes, cross-checked natively)", ""),
			c01("H_C01_modify", "modify ok", "<= 1 change x <= 2 values, strings < 12 bytes, <= 1 control", ""),
			c01("H_C01_modify_long", "modify ok", "one change x <= 1 value of up to 299 bytes (length octets in the short, 0x81 and 0x82 forms)", ""),
			c01("H_C01_modify2", "modify ok", "<= 2 changes x <= 2 values, strings < 12 bytes", ""),
			c01("H_C01_modify_pair", "pair ok", "two Modify requests (1..2 changes each, one value per change; the second concrete) decoded one after the other: the first message is unchanged afterwards", ""),
			c01("H_C01_add", "add ok", "<= 2 attributes x <= 2 values, <= 1 control", ""),
			c01("H_C01_delete", "delete ok", "<= 1 control", "quick"),
			c01("H_C01_delete2", "delete ok", "every ordered pair of the 12 control kinds", "thorough"),
			c01("H_C01_extended", "extended ok", "unbounded name", ""),
			c01("H_C01_unbind", "unbind ok", "", ""),
			c01("H_C01_unsupported", "unsupported checked", "application tags 0..30 other than the seven supported, primitive with arbitrary content or constructed with <= 3 arbitrary children", ""),
			c01("H_C01_bindversion", "version checked", "every int64 version other than 3", ""),
		}})
	nat := func(name, reach, bound, tiers string) HarnessSpec {
		return HarnessSpec{Name: name, Native: true, Reach: []string{reach}, Bound: bound, Tiers: tiers}
	}
	add(&PropertySpec{ID: "C04",
		Functions: "(*Request).{NewResponse,NewBindResponse,NewSearchDoneResponse,NewSearchResponseEntry,NewExtendedResponse,NewModifyResponse}, baseResponse setters, SetControls, AddAttribute, (*…Response).packet, beginResponse, addOptionalResponseChildren, encodeControls, (*Control…).Encode, (*ResponseWriter).Write; asn1-ber encode side from real SSA: Encode, NewString, NewInteger, NewBoolean, AppendChild, Bytes, encodeIdentifier, encodeLength, encodeUnsignedInteger, encodeInteger, int64Length, ParseInt64",
		Outside:   []string{"WithAttributes(map) with >= 2 keys (map iteration order is undefined); only AddAttribute order is asserted", "strings in the structural harnesses are < 24 bytes (every nested length in the one-octet class); the length encoder itself is discharged for every length < 2^31 by lemma L-len and integers for every int64 by lemma L-int, both on the real asn1-ber SSA", "TRUE is compared as the octet 0x01 that asn1-ber writes (any non-zero octet is TRUE in BER)", "result codes 0..32767, application codes 0..30, message IDs 0..2^31-1"},
		Harnesses: []HarnessSpec{
			nat("H_C04_general", "written", "every subset of 4 options, <= 2 setters in any order", ""),
			nat("H_C04_bind", "written", "WithResponseCode or not, <= 1 setter, <= 1 control of each of 12 kinds", ""),
			nat("H_C04_searchdone", "written", "WithResponseCode or not, <= 1 setter, <= 1 control of each of 12 kinds", ""),
			nat("H_C04_extended", "written", "WithResponseCode or not, <= 2 setters", ""),
			nat("H_C04_modify", "written", "every subset of 3 options, <= 2 setters", ""),
			nat("H_C04_entry", "written", "<= 2 attributes x <= 2 values in the order added", ""),
			nat("H_C04_two", "written", "two responses of 4 kinds each created from the same request, values set in interleaved order, both written", ""),
			nat("H_C04_latecontrol", "written", "a paging control attached with SetControls and completed (cookie) before Write, on bind and search-done responses", ""),
			nat("H_C04_lemma_int", "lemma", "every int64", ""),
			nat("H_C04_lemma_len", "lemma", "every string shorter than 2^31 bytes", ""),
		}})
	add(&PropertySpec{ID: "C14",
		Functions: "(*ControlString|ManageDsaIT|Paging|BeheraPasswordPolicy|VChuPasswordMustChange|VChuPasswordWarning|Microsoft*).Encode, encodeControls, decodeControl, NewControl* constructors, control options; asn1-ber encode side from real SSA",
		Outside:   []string{"the independent client is a reference encoding of the layout go-ldap's DecodeControl expects (RFC 2696, Behera and VChu drafts), not go-ldap's code itself", "strings below 2^26 bytes in the single-control harnesses, below 24 bytes when two controls are combined", "MustChange=false; decimal rendering/parsing of the VChu expiry is strconv's (FormatInt/ParseInt inverse assumed)", "grace / expire 0..2^31-1"},
		Harnesses: []HarnessSpec{
			nat("H_C14_encode", "encoded", "12 control kinds, all field values, all five BER length classes", ""),
			nat("H_C14_roundtrip", "roundtrip", "gldap encode -> wire -> gldap decode, 12 kinds", ""),
			nat("H_C14_order", "order", "every ordered pair of kinds on one message", ""),
			nat("H_C04_latecontrol", "written", "response direction: a paging control completed (cookie) after SetControls and before Write reaches the client as it is at Write", ""),
			nat("H_C04_bind", "written", "response direction: <= 1 control of each of 12 kinds on a bind response with any result code and <= 1 setter reaches the client byte for byte", ""),
			nat("H_C04_searchdone", "written", "response direction: the same on a search-done response", ""),
			nat("H_C14_behera_ctor", "ctor", "every subset of {grace, expire, error}; error over all uint values", ""),
			nat("H_C01_delete2", "delete ok", "request direction: reference client encoding of every ordered pair of kinds decoded by the real decoder", ""),
		}})
	add(&PropertySpec{ID: "C03",
		Functions: "Mux.{Bind,Search,ExtendedOperation,Modify,Add,Delete,DefaultRoute,Unbind}, (*Mux).serve, (*simpleBindRoute|searchRoute|extendedRoute|modifyRoute|addRoute|deleteRoute).match, newRequest, (*Request).NewResponse, (*ResponseWriter).Write, (*conn).serveRequests",
		Outside:   []string{"route tables longer than 2 (quick) / 3 (thorough)", "criteria over one-character ASCII strings (empty / equal / case variant / different); Unicode case folding of strings.EqualFold", "the filter text of a request is go-ldap's decompiler output: any one-character ASCII text"},
		Harnesses: []HarnessSpec{
			nat("H_C03_dispatch", "served", "<= 2 routes of 6 kinds with every criteria subset, 0..2 default-route registrations, unbind route or not, request of 6 kinds, scope any int64 on routes / 0..2 on requests", "quick"),
			nat("H_C03_dispatch3", "served", "as quick with <= 3 routes", "thorough"),
			nat("H_C03_pairing", "paired", "serveRequests with <= 3 requests: one serve call per request with its own (writer, request) pair", ""),
			nat("H_C03_manyroutes", "many routes served", "16 routes with interleaved operations, four search routes matching by base DN plus a catch-all; request base a / b / c (sort.Slice is modelled as unstable for more than 12 elements, as the library is: a group of elements that compare equal may be permuted)", ""),
			nat("H_C03_sequence", "sequence served", "two searches in a row on one connection against two search routes (optional base / scope criteria) and an optional default route", ""),
		}})
	add(&PropertySpec{ID: "C10",
		Functions: "(*conn).serveRequests, (*conn).readRequest, (*conn).close, newRequest, (*Mux).serve, unbindRoute handler dispatch",
		Outside:   []string{"pipelines longer than 4 frames of symbolic kind; more than 33 handlers in flight at the Unbind"},
		Harnesses: []HarnessSpec{
			nat("H_C10_unbind", "unbind done", "1..4 frames of symbolic kind (delete, add, extended operation with any name <= 24 bytes other than StartTLS) with the Unbind at every position, with and without an unbind route", ""),
			nat("H_C10_manyblocked", "manyblocked", "17 or 33 earlier handlers still running (held by a gate) when the Unbind is read; concrete frames", ""),
		}})
	eng := func(name, reach, bound, tiers string) HarnessSpec {
		return HarnessSpec{Name: name, Native: false, Reach: []string{reach}, Bound: bound, Tiers: tiers}
	}
	add(&PropertySpec{ID: "C08",
		Functions: "(*Server).Run, Run$1 (connection goroutine) and its deferred teardown, (*conn).serveRequests, serveRequests$1, (*conn).close, (*Server).Stop, (*Mux).serve",
		Outside:   []string{"more than two connections per scenario (the nine endings are explored with one connection, ID reporting with two), more than 2 handlers in flight", "plain connections only in this check (TLS wrapping is C13/C18); file descriptors are the net stub's Close events"},
		Harnesses: []HarnessSpec{
			eng("H_C09_overlap", "ids", "two connections open at the same time, ending one after the other: OnClose reports each connection's own ID (the ID its requests saw), once", ""),
			eng("H_C08_endings", "ended", "9 endings (EOF, reset, Unbind, malformed, unsupported, read timeout, panic on the read loop, Stop mid-stream, SetReadDeadline failure) x 0..2 handlers in flight held by gates x unbind route or not; deterministic eager schedule plus the gate-controlled phases", ""),
		}})
	add(&PropertySpec{ID: "C06",
		Functions: "(*conn).serveRequests, serveRequests$1, (*conn).readRequest, newRequest, newResponseWriter, (*Mux).serve",
		Outside:   []string{"pipelines longer than 3 requests of symbolic kind (257 with concrete frames); hundreds of simultaneous connections (connections share no state in serveRequests)", "'without waiting' is decided under the late schedule (spawned handlers run only once the read loop blocks or ends): every handler must observe that all M frames had already been read"},
		Harnesses: []HarnessSpec{
			nat("H_C06_numbering", "numbered", "1..3 frames of symbolic kind (delete, add, extended operation with any name <= 24 bytes other than StartTLS), optional read error at the end; late schedule", ""),
			nat("H_C03_pairing", "paired", "eager schedule: request j = j-th frame, writer/request pairing", ""),
			nat("H_C13_starttls", "starttls", "numbering across a StartTLS upgrade at every position of 1..3 frames", ""),
			eng("H_C06_manyblocked", "many blocked", "a pipeline of 130 or 257 requests (concrete frames) whose handlers all block until the whole pipeline has been dispatched", ""),
			eng("H_C06_blockedwriter", "blockedwriter", "2..3 pipelined requests on a connection whose client never reads (handlers block inside Write) plus a second connection", ""),
		}})
	add(&PropertySpec{ID: "C13",
		Functions: "(*conn).serveRequests (StartTLS branch), (*Request).StartTLS, (*conn).initConn, newResponseWriter, (*ResponseWriter).Write",
		Outside:   []string{"that bytes through a TLS connection are protected and that the handshake reads the client's first byte from the raw socket is crypto/tls's contract (§5.5)", "earlier in-flight handlers still holding the plaintext writer (RFC 4511 §4.14.1 forbids pipelining around StartTLS)", "more than two sessions upgrading in parallel (gldap sessions share no state; the test directory's handler is checked with two)"},
		Harnesses: []HarnessSpec{
			nat("H_C13_starttls", "starttls", "StartTLS at every position of 1..3 frames, handshake succeeds or fails", ""),
			eng("H_C13_stop_upgraded", "stopped after upgrade", "Run-level: one connection upgrades with StartTLS, sends 0..1 requests inside the tunnel, goes idle, then the server is stopped (spawn-order schedules): every write after the StartTLS response goes through the TLS connection", ""),
			{Name: "H_TD_C13_parallel", Pkg: "testdirectory", Reach: []string{"parallel upgrades"},
				Tweak: func(c *HarnessCfg, tier string) { c.ExtraPkgs["golang.org/x/exp/slices"] = true },
				Bound: "test directory's StartTLS handler: one session waiting for its client's handshake while a second session binds, upgrades, or starts an upgrade of its own"},
		}})
	poC12 := func(p *PathResult, po *PO) []POFinding {
		var out []POFinding
		stops := po.find(kindIs("h:Stop.return"))
		runs := po.find(kindIs("h:Run.return"))
		if len(stops) == 0 || len(runs) == 0 {
			return nil
		}
		targets := map[string][]int{
			"OnClose completes after Stop and Run returned":        po.find(kindIs("h:OnClose.exit")),
			"socket closed after Stop and Run returned":            po.find(kindIs("close")),
			"handler still running after Stop and Run returned":    po.find(kindIs("h:handler.exit")),
			"listener closed only after Stop and Run returned":     po.find(kindIs("listener.close")),
			"connection accepted after Stop and Run returned":      po.find(kindIs("accept")),
		}
		for name, idx := range targets {
			for _, x := range idx {
				if name == "listener closed only after Stop and Run returned" {
					// only the FIRST close matters: ask whether every close can come after both returns
					continue
				}
				// both returned, and x not yet executed or executed later
				v, order := po.Query(ex(stops[0]), ex(runs[0]), fmt.Sprintf("(or (not x%d) (and %s %s))", x, lt(stops[0], x), lt(runs[0], x)))
				if v == Sat {
					out = append(out, POFinding{Key: name, Detail: name + ": a consistent reordering of the recorded events puts it after both returns", Order: po.Describe(order)})
					break
				}
			}
		}
		if lc := targets["listener closed only after Stop and Run returned"]; len(lc) > 0 {
			extra := []string{ex(stops[0]), ex(runs[0])}
			for _, x := range lc {
				extra = append(extra, fmt.Sprintf("(or (not x%d) (and %s %s))", x, lt(stops[0], x), lt(runs[0], x)))
			}
			if v, order := po.Query(extra...); v == Sat {
				out = append(out, POFinding{Key: "listener open after Stop and Run returned", Detail: "every close of the listener can be ordered after both returns", Order: po.Describe(order)})
			}
		}
		return out
	}
	add(&PropertySpec{ID: "C07",
		Functions: "(*Server).Run (accept loop), Run$1 and its deferred recover/teardown, (*conn).serveRequests, serveRequests$1 and its recover, (*Mux).serve, (*ResponseWriter).Write",
		Outside:   []string{"one fault per scenario, one victim and one bystander connection", "a client that stops reading is covered under C11 (its handler blocks in Write)", "panics in gldap's own decoding are excluded by C02"},
		Harnesses: []HarnessSpec{
			eng("H_C07_faults", "faults", "11 fault kinds (a silent TLS peer that never starts its handshake, handler panic on a request goroutine, in the StartTLS / unbind / default-route handler, connection reset, connection reset with a handler still running that answers only after the bystander was served, malformed frame, failed write, client not reading, temporary Accept error) x spawn-order schedules", ""),
		}})
	add(&PropertySpec{ID: "C09",
		Functions: "(*Server).Run (accept loop, connID/localConnID), Run$1, newConn, (*Request).ConnectionID, OnClose callback",
		Outside:   []string{"more than 3 connections / 2 requests each; more than 2^63 accepts", "the accept-loop step relies on the loop variable being called connID (if a change renames it the override does not apply and the witness 'accept step' still has to be reached with p = 0 semantics); besides it 3 unrolled iterations under every spawn-order schedule (which is what separates the per-iteration copy from the loop variable)"},
		Harnesses: []HarnessSpec{
			nat("H_C09_step", "step", "inductive step: any connection id n in 1..2^63-1 and any request number k >= 1 (all 64-bit values)", ""),
			eng("H_C09_ids", "ids", "1..2 connections x 1..2 requests, every child-first/spawner-first choice at each go statement", ""),
			nat("H_C13_starttls", "starttls", "the connection's ID (7) is what every request reports before, during and after a StartTLS upgrade at request number 1..3", ""),
			eng("H_C09_acceptstep", "accept step", "inductive step of the accept loop: the loop's connection counter starts from any value p in 0..2^62 (engine primitive vLoopInit replaces the constant the variable connID enters the loop with); the next connection has ID p+1 > 0, OnClose reports it, Run goes on", ""),
			eng("H_C09_overlap", "ids", "2 connections x 1 request whose set-up may overlap: child-first/spawner-first for the connection goroutines plus one preemption at any synchronisation point (lock, wait group, atomic operation)", ""),
			eng("H_C09_ids3", "ids", "1..3 connections x 1..2 requests; child-first/spawner-first explored for the connection goroutines only", ""),
		}})
	add(&PropertySpec{ID: "C11",
		Functions: "(*Server).Stop, (*Server).Run, Run$1 incl. the shutdown watcher, (*conn).serveRequests (shutdown branch), (*conn).close",
		Outside:   []string{"'bounded time' is decided as termination that needs no client action (no wall-clock figure)", "one connection per scenario (Stop waits on a counter; connections do not interact)"},
		Harnesses: []HarnessSpec{
			eng("H_C11_startrace", "start race", "Stop racing with Run's start-up (no connections): every spawn order plus 1..2 preemptions at synchronisation points", ""),
			eng("H_C11_stop", "stopped", "connection state at Stop: none, idle, TLS handshake pending, pipelining then idle, not reading its responses, Stop arriving between two requests of a pipelining client that never reads (shutdown branch of the read loop, handlers still writing), slow handlers writing after the shutdown notice to a client whose window is full, a connection that Accept returns although Stop has already closed the listener; with/without read timeout; optional concurrent second Stop", ""),
		}})
	add(&PropertySpec{ID: "C12",
		Functions: "(*Server).Stop, (*Server).Run, Run$1 teardown (close, OnClose, connWg.Done), (*conn).close",
		Outside:   []string{"one connection, one request; the partial-order queries range over all reorderings of each explored trace that keep every thread's observations (maximal causal model), not over traces with different control flow than the explored ones"},
		Harnesses: []HarnessSpec{
			eng("H_C11_startrace", "start race", "Stop racing with Run's start-up: once both have returned nothing is left listening", ""),
			eng("H_C09_acceptstep", "accept step", "the connection accepted after any number p (0..2^62) of earlier ones is closed and reported once by the time Stop and Run have returned", ""),
			{Name: "H_C12_orders", Reach: []string{"orders"}, PO: poC12,
				Bound: "Stop before Run / between Listen and the first Accept / right after Accept / during traffic; slow handler and slow OnClose held by gates; Stop twice; spawn-order schedules; per trace: can OnClose.exit, close, handler.exit, accept or every listener close be ordered after both Stop.return and Run.return?"},
		}})
	add(&PropertySpec{ID: "C17",
		Functions: "(*Server).Run (validateAddrPort, Listen, listenerReady), (*Server).Ready, (*Server).Stop",
		Outside:   []string{"address forms: the twelve rows listed in the harness; the resolver's answer and Listen's outcome are symbolic", "after Stop the flag is not required to drop (the property speaks of the interval until Stop is called)"},
		Harnesses: []HarnessSpec{
			eng("H_C09_acceptstep", "accept step", "after any number p (0..2^62) of earlier connections Run accepts and serves the next one and keeps running (Ready stays truthful)", ""),
			eng("H_C17_ready", "run ok", "optionally a server with 1 s read / write timeouts and a client that connects long after Run started (a new clock epoch); optionally (TLS) a silent peer that never starts its handshake connects first, or the OnClose callback of an earlier connection is still running; the address may be in use at the first attempt to listen; 12 address forms (incl. ports outside 0..65535) x resolver answer x Listen outcome x 0..2 concurrent Ready pollers x spawn-order schedules", ""),
		}})
	td := func(name, reach, bound, tiers string) HarnessSpec {
		return HarnessSpec{Name: name, Pkg: "testdirectory", Native: true, Reach: []string{reach}, Bound: bound, Tiers: tiers,
			Tweak: func(c *HarnessCfg, tier string) { c.ExtraPkgs["golang.org/x/exp/slices"] = true }}
	}
	add(&PropertySpec{ID: "C19",
		Functions: "(*Directory).handleBind closure, (*Entry).GetAttributeValues, (*Request).GetSimpleBindMessage, NewBindResponse, SetResultCode, (*ResponseWriter).Write; the bind request is produced by the real newRequest",
		Outside:   []string{"more than 2 (quick) / 3 (thorough) user entries, 2 attributes x 2 values each", "transport independence (plain / TLS / StartTLS) follows from C13 and C18: the handler never touches the connection", "controls attached to successful binds (SetControls) are not part of the statement"},
		Harnesses: []HarnessSpec{
			td("H_TD_C19_bind", "bind answered", "<= 2 users x <= 2 attributes x <= 2 values, all names/values/DNs/passwords unbounded symbolic strings (duplicate DNs, prefix DNs, missing or empty password attributes included), both AllowAnonymousBind settings", ""),
			td("H_TD_C19_seq", "bind sequence", "bind, then one change (LDAP delete / add / modify-replace / modify-delete of the password, SetUsers, or none), then bind again over a pool of 2 DNs and the passwords that ever existed: the second answer follows the current entries", ""),
			td("H_TD_C19_bind3", "bind answered", "<= 3 users (first with <= 2 attributes x <= 2 values, the others <= 1 x <= 1)", "thorough"),
		}})
	add(&PropertySpec{ID: "C20",
		Functions: "(*Directory).handleAdd, handleModify, handleDelete, handleSearchUsers closures, find, match, gldap.NewEntry, NewEntryAttribute, AddValue; requests produced by the real newRequest, responses decoded from the bytes written",
		Outside:   []string{"refinement step instead of history exploration: one operation from an arbitrary valid store over a pool of 2 user DNs (none a substring of the other) related to a reference model, plus all sequences of 2 operations from the empty store; longer histories follow by induction on the relation", "DNs containing parentheses or '*'; group entries beyond one fixed group; token groups; concurrent clients (C15)", "values shorter than 10 bytes; a stored value may be plain or BER-wrapped"},
		Harnesses: []HarnessSpec{
			td("H_TD_C20_step", "step", "arbitrary store (each pool user present or not, 1-2 mail values, optional description, optional group) x one of add / delete / modify{add,delete,replace} x {mail,description} x 0..2 values / search, then every pool entry is searched and compared with the model", ""),
			td("H_TD_C20_seq", "seq", "every sequence of two operations from the empty store", ""),
			td("H_TD_C20_anydn", "anydn", "add / add again / delete / delete again / add of one concrete entry whose DN lies below the user base, the group base (also in upper case) or neither, into a store with or without one user and one group", ""),
			td("H_TD_C20_multichange", "multichange", "one Modify request with two changes (each add / delete / replace on mail or description, 0..2 + 0..1 values) against a present entry of arbitrary shape", ""),
		}})
	add(&PropertySpec{ID: "C18",
		Functions: "(*Server).Run (WithTLSConfig, tls.NewListener wrapping, Accept), newConn, (*conn).initConn, (*conn).serveRequests, readRequest, Run$1 teardown",
		Outside:   []string{"that a TLS connection yields application bytes only after a handshake satisfying its configuration is the crypto/tls contract (DESIGN §5.5): assumed, not verified; plaintext bytes, a missing or wrong client certificate and an abandoned connect are all 'the handshake does not complete'", "testdirectory.GetTLSConfig / Start run with the x509 / ecdsa / pem / big / testify calls replaced by opaque stubs that never fail: only the configuration plumbing (ClientAuth, ClientCAs identity, which configuration reaches the listener) and the IsCA / KeyUsage fields of the templates passed to x509.CreateCertificate are decided; certificate chain building is crypto/x509's contract"},
		Harnesses: []HarnessSpec{
			eng("H_C18_tls", "tls", "server certificate from a static list, a GetCertificate callback or a GetConfigForClient callback; configurations {none, server authentication, client certificate required} x first client {conforming, failing handshake, abandoned connect} with a conforming second client, spawn-order schedules", ""),
			eng("H_C17_ready", "run ok", "Run start-up variants (address forms, Listen failing, the address briefly in use at the first attempt, TLS or not): whenever Run serves with a TLS configuration, the handler runs on a TLS connection", ""),
			{Name: "H_TD_C13_parallel", Pkg: "testdirectory", Reach: []string{"parallel upgrades"},
				Tweak: func(c *HarnessCfg, tier string) { c.ExtraPkgs["golang.org/x/exp/slices"] = true },
				Bound: "mTLS directory serving StartTLS requests on two sessions: the configuration object the listener uses keeps ClientAuth = RequireAndVerifyClientCert"},
			{Name: "H_TD_C18_config", Pkg: "testdirectory", Reach: []string{"config"}, Bound: "GetTLSConfig with / without WithMTLS; x509 / ecdsa / pem / testify calls are opaque stubs that never fail",
				Tweak: func(c *HarnessCfg, tier string) { c.OpaquePkgs = tdOpaque }},
			{Name: "H_TD_C18_start", Pkg: "testdirectory", Reach: []string{"start"}, Bound: "Start with every subset of {WithNoTLS, WithMTLS}: the configuration the listener is wrapped with",
				Tweak: func(c *HarnessCfg, tier string) { c.OpaquePkgs = tdOpaque; c.ExtraPkgs["golang.org/x/exp/slices"] = true }},
		}})
	poC05 := func(p *PathResult, po *PO) []POFinding {
		var out []POFinding
		// per thread: the bufio.Write/Flush calls; no call of another thread may fall between a Write and its Flush,
		// and no two bufio calls of different threads may be unordered
		type call struct{ idx, tid int; kind, obj string }
		var calls []call
		for i, e := range p.Events {
			if e.Kind == "bufio.Write" || e.Kind == "bufio.Flush" || e.Kind == "bufio.Reset" {
				obj := ""
				if len(e.Args) > 0 {
					obj = e.Args[0]
				}
				calls = append(calls, call{i, e.Tid, e.Kind, obj})
			}
		}
		for a := 0; a < len(calls); a++ {
			for b := 0; b < len(calls); b++ {
				x, y := calls[a], calls[b]
				if x.tid == y.tid || x.obj != y.obj {
					continue // one goroutine, or two different bufio.Writer objects (before / after an upgrade)
				}
				if a < b {
					if v, order := po.Query(ex(x.idx), ex(y.idx), fmt.Sprintf("(= c%d c%d)", x.idx, y.idx)); v == Sat {
						return append(out, POFinding{Key: "unsynchronised bufio.Writer use", Detail: "two method calls on the connection's bufio.Writer from different goroutines are not ordered by happens-before", Order: po.Describe(order)})
					}
				}
				// x = a Write; find its thread's next Flush
				if x.kind != "bufio.Write" {
					continue
				}
				fl := -1
				for c := a + 1; c < len(calls); c++ {
					if calls[c].tid == x.tid && calls[c].kind == "bufio.Flush" {
						fl = calls[c].idx
						break
					}
				}
				if fl < 0 {
					continue
				}
				if v, order := po.Query(ex(x.idx), ex(y.idx), ex(fl), lt(x.idx, y.idx), lt(y.idx, fl)); v == Sat {
					return append(out, POFinding{Key: "frame interleaving", Detail: "a bufio call of another goroutine can fall between one response's Write and its Flush (torn or merged frames)", Order: po.Describe(order)})
				}
			}
		}
		return out
	}
	add(&PropertySpec{ID: "C05",
		Functions: "(*ResponseWriter).Write, newResponseWriter, (*conn).serveRequests (writer/lock identity), serveRequests$1, (*Request).StartTLS / initConn for the upgraded variant",
		Outside:   []string{"N <= 3 writers x 2 frames on one connection; hundreds of writers, kernel back-pressure, the TLS record layer and GOMAXPROCS are behind the bufio/net/tls stubs", "bufio.Writer is modelled as a non-thread-safe buffer whose Flush emits the buffered bytes in one chunk (frames larger than the buffer being emitted by Write itself is bufio's behaviour, covered by the mutual-exclusion query: no foreign call between a Write and its Flush)"},
		Harnesses: []HarnessSpec{
			{Name: "H_C05_writers", Native: true, Reach: []string{"writers"}, PO: poC05,
				Bound: "2..3 concurrent handlers x 2 frames each, plain or after a StartTLS upgrade; spawn-order schedules + <= 1 preemption at a synchronisation point; per trace the partial-order queries: can two bufio calls of different goroutines coincide? can a foreign bufio call fall between a Write and its Flush?"},
			{Name: "H_C05_shared_writer", Reach: []string{"shared writer"}, PO: poC05,
				Bound: "one handler writing one frame from itself and one from a worker goroutine through the same ResponseWriter; spawn-order schedules + 1..2 preemptions at synchronisation points; each frame arrives exactly once; the same partial-order queries"},
			{Name: "H_C05_upgrade_inflight", Reach: []string{"upgrade inflight"}, PO: poC05,
				Bound: "a StartTLS request pipelined behind a request whose handler may still be in flight and followed by another request; spawn-order schedules; the same two partial-order queries per bufio.Writer object (Write, Flush, Reset)"},
			{Name: "H_C05_shutdown_notice", Native: true, Reach: []string{"shutdown notice"}, PO: poC05,
				Bound: "1..2 handlers in flight when the shutdown context is cancelled between two reads: the notice of disconnection vs. the handlers' responses; spawn-order schedules; the same partial-order queries"},
			eng("H_C05_partial", "partial", "server with a write timeout, a 20 000-byte response cut off by the deadline after half of it was sent, then a second response on the same connection", ""),
			nat("H_C05_bigframes", "big frame", "one response with a concrete diagnostic message of 100 B ... 70 000 B (sizes around 4 KiB, 16 KiB, 64 KiB)", ""),
			nat("H_C05_step", "step", "one Write from an empty buffer and a free lock, write succeeds or fails, strings < 24 bytes", ""),
		}})
	poRaces := func(p *PathResult, po *PO) []POFinding {
		races, _ := po.Races(nil)
		var out []POFinding
		for _, r := range races {
			a, b := po.ev[r.A], po.ev[r.B]
			out = append(out, POFinding{Key: "race:" + r.Loc, Detail: fmt.Sprintf("%s of %s (thread %d) and %s (thread %d) are not ordered by happens-before", a.Kind, r.Loc, a.Tid, b.Kind, b.Tid), Order: po.Describe(r.Order)})
		}
		return out
	}
	add(&PropertySpec{ID: "C15",
		Functions: "all functions reached by the C05-C13 workloads: (*Server).{Run,Stop,Ready,Router}, Run$1, (*conn).{serveRequests,readRequest,readPacket,initConn,close}, serveRequests$1, (*Mux).serve, (*ResponseWriter).Write, (*Request).StartTLS; testdirectory: handleBind/SearchUsers/Add/Modify/Delete closures, Set*/getters",
		Outside:   []string{"the tracked locations are the fields of Server, Mux, conn and Directory (nested structs included, not followed through pointers into entries/slices); library objects (bufio, bytes.Buffer) are covered by C05's bufio queries", "generalisation is over all reorderings of the explored traces that keep each thread's observations, not over workloads beyond 2 connections x <= 4 requests / one served operation x one admin call", "routes registered after Run"},
		Harnesses: []HarnessSpec{
			{Name: "H_C15_server", Reach: []string{"workload"}, PO: poRaces, Bound: "2 connections, pipelined requests with concurrent writes, optional StartTLS upgrade, 2 Ready pollers, early and final Stop, spawn-order schedules; per trace every conflicting pair of tracked accesses is a race query (can the two clocks coincide?); a WaitGroup's first Add from zero and its first Wait count as a conflicting pair (sync.WaitGroup's rule, as the race detector instruments it)"},
			{Name: "H_C05_upgrade_inflight", Reach: []string{"upgrade inflight"}, PO: poC05,
				Bound: "the connection's bufio.Writer objects (library state owned by gldap): StartTLS pipelined behind an in-flight handler; can two method calls (Write, Flush, Reset) on one object from different goroutines coincide?"},
			{Name: "H_C05_shutdown_notice", Reach: []string{"shutdown notice"}, PO: poC05,
				Bound: "the connection's bufio.Writer: notice of disconnection written by the read loop while handlers are still writing"},
			{Name: "H_TD_C15_directory", Pkg: "testdirectory", Reach: []string{"directory workload"}, PO: poRaces,
				Tweak: func(c *HarnessCfg, tier string) { c.ExtraPkgs["golang.org/x/exp/slices"] = true },
				Bound: "one served operation (bind, user search, add, modify, delete) concurrently with one of the 8 Set*/getter calls"},
			{Name: "H_TD_C15_pair", Pkg: "testdirectory", Reach: []string{"directory pair"}, PO: poRaces,
				Tweak: func(c *HarnessCfg, tier string) { c.ExtraPkgs["golang.org/x/exp/slices"] = true },
				Bound: "two served operations at once on one user entry: reader (user search, bind) x writer (modify add-value / replace, add, delete); tracked: Directory fields, the entry and its attribute objects"},
		}})
	add(&PropertySpec{ID: "C02",
		Functions: "(*conn).readRequest, (*conn).readPacket, newRequest, newMessage, (*packet).{basicValidation,requestPacket,requestType,requestMessageID,simpleBindParameters,searchParmeters,modifyParameters,addParameters,deleteParameters,extendedOperationName,controlPacket,assert,assertApplicationRequest}, decodeControl, decodeAttribute, NewControl*",
		Outside:   []string{"byte-level framing (length octets, truncation, EOC, oversize): the asn1-ber reader's error outcome by contract (DESIGN §5.1)", "panics inside asn1-ber's reader and go-ldap's DecompileFilter (it recovers)", "universal REAL and GeneralizedTime payloads (opaque values)", "trees deeper than 5 below the envelope or wider than the stated widths", "more than one control per message in this check (controls are decoded one at a time by decodeControl; pairs of controls are decoded in C14's H_C01_delete2); a two-control exploration did not finish within 3.5 hours and is not registered"},
		Harnesses: []HarnessSpec{
			{Name: "H_C02_readRequest", Native: true, Reach: []string{"returned", "decoded"},
				Bound: "symbolic wire tree: depth <= 5, children: envelope <= 4, request <= 9, controls <= 1 x <= 4 children, lists <= 2-3; control value re-decoded as a symbolic tree of depth 3, width 2; every node's class/type/tag/content unconstrained",
				Tweak: func(c *HarnessCfg, tier string) { c.DecodeWidths = "def=2" }},
			{Name: "H_C02_modify_deep", Native: true, Reach: []string{"returned", "decoded"},
				Bound: "one level deeper (depth 6) for a narrow tree: envelope <= 2, operation <= 2, one change, its PartialAttribute <= 3 children with <= 2 children each (the values inside a change's SETs are nodes too)",
				Tweak: func(c *HarnessCfg, tier string) { c.DecodeWidths = "def=2" }},
			{Name: "H_C02_deepnest", Native: true, Reach: []string{"deep"},
				Bound: "concrete frames of 33, 64 and 200 nested SEQUENCEs, silent and debug-level logger"},
			{Name: "H_C02_truncated", Native: true, Reach: []string{"truncated"},
				Bound: "a stream of 0..2 arbitrary bytes followed by EOF (not a complete element): read error, no panic; the bytes are visible to gldap through bufio.Reader.Peek"},
			{Name: "H_C02_readRequest_w3", Native: true, Tiers: "thorough", Reach: []string{"returned", "decoded"},
				Bound: "as quick, with control values re-decoded at width 3",
				Tweak: func(c *HarnessCfg, tier string) { c.DecodeWidths = "def=3"; c.MaxPaths = 400000 }},
		}})
	return m
}
