package main

// Cooperative threads for the interpreted program: every target goroutine
// runs in its own host goroutine, exactly one at a time (baton passing), so
// blocking operations (Lock, Wait, Accept, Read, <-ctx.Done(), gates) suspend
// the thread instead of ending the path.  The schedule of one path is
// deterministic (policy eager/late + fork decisions); the partial-order layer
// (po.go) then quantifies over all consistent reorderings of the recorded
// events.

import (
	"fmt"
	"strings"
)

type thread struct {
	id      int
	name    string
	fn      Value
	args    []Value
	resume  chan bool // true: run, false: die
	state   int       // 0 runnable, 1 blocked, 2 done
	reason  string
	cond    func() bool
	crashed *targetPanic
	started bool
	parent  int
	result  Value
}

type threadKill struct{}

type yieldMsg struct {
	t     *thread
	abort interface{} // pathEnd / engine error to propagate
}

const (
	tsRunnable = 0
	tsBlocked  = 1
	tsDone     = 2
)

func (in *Interp) curTid() int {
	if in.cur == nil {
		return 0
	}
	return in.cur.id
}

// newThread registers a thread (not yet started).
func (in *Interp) newThread(name string, fn Value, args []Value) *thread {
	t := &thread{id: len(in.threads), name: name, fn: fn, args: args, resume: make(chan bool), parent: in.curTid()}
	in.threads = append(in.threads, t)
	return t
}

// startThread launches the host goroutine, parked until first resumed.
func (in *Interp) startThread(t *thread, body func()) {
	t.started = true
	go func() {
		if !<-t.resume {
			in.yield <- yieldMsg{t: t}
			return
		}
		var abort interface{}
		func() {
			defer func() {
				r := recover()
				switch x := r.(type) {
				case nil:
				case threadKill:
				case *targetPanic:
					if x.kind == "goexit" && t.id != 0 {
						break // runtime.Goexit: the goroutine ends, nothing else happens
					}
					// unrecovered panic at the top of a goroutine: the process dies
					if t.id == 0 {
						abort = x // harness body: reported by runPath
					} else {
						t.crashed = x
						in.emit("CRASH", t.name, x.site, x.kind)
						in.crashes = append(in.crashes, x)
					}
				default:
					abort = r
				}
			}()
			body()
		}()
		t.state = tsDone
		in.emitT(t.id, "thread.end", t.name)
		in.yield <- yieldMsg{t: t, abort: abort}
	}()
}

// schedule runs threads until thread 0 (the harness body) is done and no
// other thread can make progress, or a path-ending condition occurs.
func (in *Interp) schedule() {
	defer in.killAll()
	for {
		t := in.pickNext()
		if t == nil {
			// nothing can run any more: remember whether the harness body got to its end
			// (killAll below marks every thread done)
			if len(in.threads) > 0 && in.threads[0].state != tsDone {
				in.mainBlocked = "harness body blocked: " + in.threads[0].reason
			}
			return
		}
		in.cur = t
		t.state = tsRunnable
		t.resume <- true
		msg := <-in.yield
		in.cur = nil
		if msg.abort != nil {
			panic(msg.abort)
		}
	}
}

func (in *Interp) pickNext() *thread {
	if in.schedFork && in.schedLevel >= 2 {
		var cands []*thread
		for _, id := range in.runq {
			t := in.threads[id]
			if t.state == tsRunnable || (t.state == tsBlocked && t.cond != nil && t.cond()) {
				cands = append(cands, t)
			}
		}
		if len(cands) == 0 {
			return nil
		}
		if len(cands) == 1 {
			return cands[0]
		}
		return cands[in.forkChoice(len(cands), "schedule")]
	}
	// priority queue order
	for _, id := range in.runq {
		t := in.threads[id]
		if t.state == tsDone {
			continue
		}
		if t.state == tsBlocked {
			if t.cond != nil && t.cond() {
				return t
			}
			continue
		}
		return t
	}
	return nil
}

func (in *Interp) killAll() {
	for _, t := range in.threads {
		if t.started && t.state != tsDone {
			t.state = tsDone
			t.resume <- false
			<-in.yield
		}
	}
}

// yieldNow gives the baton back to the scheduler and waits to be resumed.
func (in *Interp) yieldNow(t *thread) {
	in.yield <- yieldMsg{t: t}
	if !<-t.resume {
		panic(threadKill{})
	}
	in.cur = t
}

// block suspends the current thread until cond holds.
func (in *Interp) block(reason string, cond func() bool) {
	t := in.cur
	if t == nil {
		if cond() {
			return
		}
		in.end("blocked", reason)
	}
	for !cond() {
		t.state = tsBlocked
		t.reason = reason
		t.cond = cond
		in.emitT(t.id, "block", reason)
		in.yieldNow(t)
	}
	t.state = tsRunnable
	t.reason = ""
	t.cond = nil
}

// preempt lets other runnable threads go first (used by vYield and by the
// eager policy at spawn).
func (in *Interp) preempt() {
	t := in.cur
	if t == nil {
		return
	}
	// move to the back of the run queue
	in.moveToBack(t.id)
	in.yieldNow(t)
}

func (in *Interp) moveToBack(id int) {
	out := in.runq[:0:0]
	for _, x := range in.runq {
		if x != id {
			out = append(out, x)
		}
	}
	in.runq = append(out, id)
}

func (in *Interp) moveToFront(id int) {
	out := []int{id}
	for _, x := range in.runq {
		if x != id {
			out = append(out, x)
		}
	}
	in.runq = out
}

// spawnThread implements the go statement.
func (in *Interp) spawnThread(fr *frame, fn Value, args []Value, name string) {
	t := in.newThread(name, fn, args)
	in.emit("spawn", fmt.Sprint(t.id), name)
	in.startThread(t, func() {
		in.emitT(t.id, "thread.start", name)
		in.call(nil, fn, args, nil, false)
	})
	late := in.lateSched
	if in.schedFork && in.cur != nil && (in.schedFilter == "" || strings.HasSuffix(name, in.schedFilter)) {
		late = in.forkChoice(2, "spawn order") == 1
	}
	if late {
		in.runq = append(in.runq, t.id)
		return
	}
	// eager: the child runs first; the spawner continues when the child blocks or ends
	in.runq = append(in.runq, t.id)
	in.moveToFront(t.id)
	if in.cur != nil {
		cur := in.cur
		in.yieldNow(cur)
	}
}

// others reports whether any thread other than self could still run.
func (in *Interp) othersRunnable(self int) bool {
	for _, t := range in.threads {
		if t.id == self || t.state == tsDone {
			continue
		}
		if t.state == tsRunnable {
			return true
		}
		if t.state == tsBlocked && t.cond != nil && t.cond() {
			return true
		}
	}
	return false
}

func (in *Interp) emitT(tid int, kind string, args ...string) {
	in.path.events = append(in.path.events, Event{Kind: kind, Args: args, Tid: tid})
}

// forkChoice is a decision among n alternatives that are all feasible
// (schedule choices): no solver query.
func (in *Interp) forkChoice(n int, what string) int {
	ps := in.path
	if ps.pos < len(ps.decisions) {
		d := ps.decisions[ps.pos]
		ps.pos++
		ps.taken = append(ps.taken, d)
		return d
	}
	alts := make([]int, 0, n-1)
	for i := 1; i < n; i++ {
		alts = append(alts, i)
	}
	ps.forks = append(ps.forks, ForkRec{depth: len(ps.taken), alts: alts})
	ps.taken = append(ps.taken, 0)
	ps.pos++
	return 0
}

// maybePreempt: context-bounded preemption before a synchronisation event.
func (in *Interp) maybePreempt(what string) {
	if in.preemptBudget <= 0 || in.cur == nil || !in.othersRunnable(in.cur.id) {
		return
	}
	if in.forkChoice(2, "preempt "+what) == 1 {
		in.preemptBudget--
		in.preempt()
	}
}
