package main

// One long-lived SMT solver process per worker, driven over stdin/stdout
// with SMT-LIB2 text.

import (
	"bufio"
	"fmt"
	"io"
	"os"
	"os/exec"
	"strings"
	"sync/atomic"
	"time"
)

type SolverKind int

const (
	Z3Old SolverKind = iota // z3 4.8.12 (/usr/bin/z3)
	Z3New                   // z3-new 5.1.0
	CVC5
)

func (k SolverKind) String() string {
	switch k {
	case Z3Old:
		return "z3-4.8.12"
	case Z3New:
		return "z3-new-5.1.0"
	case CVC5:
		return "cvc5-1.0"
	}
	return "?"
}

type Solver struct {
	kind    SolverKind
	cmd     *exec.Cmd
	in      io.WriteCloser
	out     *bufio.Reader
	seq     int
	log     io.Writer
	timeout int // ms per query
	Queries int64
	TimeNs  int64
	dead    bool
	last    string
	mirror  *Solver // second solver fed the same commands (thorough tier)
}

var (
	gQueries   int64
	gSolverNs  int64
	gSat       int64
	gUnsat     int64
	gUnknown   int64
	gSolverErr int64
	gSolverHung int64
)

func NewSolver(kind SolverKind, timeoutMs int) (*Solver, error) {
	var cmd *exec.Cmd
	switch kind {
	case Z3Old:
		cmd = exec.Command("/usr/bin/z3", "-in", "-smt2")
	case Z3New:
		cmd = exec.Command("z3-new", "-in", "-smt2")
	case CVC5:
		cmd = exec.Command("cvc5", "--incremental", "--strings-exp", "--produce-models", "--lang=smt2", fmt.Sprintf("--tlimit-per=%d", timeoutMs))
	}
	in, err := cmd.StdinPipe()
	if err != nil {
		return nil, err
	}
	out, err := cmd.StdoutPipe()
	if err != nil {
		return nil, err
	}
	cmd.Stderr = cmd.Stdout
	if err := cmd.Start(); err != nil {
		return nil, err
	}
	s := &Solver{kind: kind, cmd: cmd, in: in, out: bufio.NewReaderSize(out, 1<<16), timeout: timeoutMs}
	if p := os.Getenv("GOSYM_SMTLOG"); p != "" {
		f, _ := os.OpenFile(fmt.Sprintf("%s.%d", p, cmd.Process.Pid), os.O_CREATE|os.O_WRONLY|os.O_TRUNC, 0o644)
		s.log = f
	}
	switch kind {
	case Z3Old, Z3New:
		s.send(fmt.Sprintf("(set-option :timeout %d)", timeoutMs))
		s.send("(set-option :model.completion true)")
	case CVC5:
		s.send("(set-logic ALL)")
	}
	return s, nil
}

func (s *Solver) send(cmd string) {
	if s.mirror != nil && !strings.HasPrefix(cmd, "(echo") && !strings.HasPrefix(cmd, "(check-sat") && !strings.HasPrefix(cmd, "(get-value") {
		s.mirror.send(cmd)
	}
	if s.dead {
		return
	}
	if s.log != nil {
		io.WriteString(s.log, cmd+"\n")
	}
	if strings.HasPrefix(cmd, "(assert") {
		s.last = cmd
	}
	if _, err := io.WriteString(s.in, cmd+"\n"); err != nil {
		s.dead = true
	}
}

func (s *Solver) Send(cmds ...string) {
	for _, c := range cmds {
		s.send(c)
	}
}

// sync sends an echo marker and returns all output lines before it.  A
// solver that does not answer within 3x its per-query timeout (+10 s) is
// killed; the query is then inconclusive.
func (s *Solver) sync() []string {
	if s.dead {
		return []string{"(error \"solver dead\")"}
	}
	s.seq++
	mark := fmt.Sprintf("@@%d", s.seq)
	s.send(fmt.Sprintf("(echo \"%s\")", mark))
	type result struct{ lines []string }
	ch := make(chan result, 1)
	go func() {
		var lines []string
		for {
			line, err := s.out.ReadString('\n')
			line = strings.TrimRight(line, "\r\n")
			if strings.Trim(line, "\"") == mark {
				ch <- result{lines}
				return
			}
			if line != "" {
				lines = append(lines, line)
			}
			if err != nil {
				lines = append(lines, "(error \"solver died\")")
				ch <- result{lines}
				return
			}
		}
	}()
	limit := time.Duration(3*s.timeout+10000) * time.Millisecond
	select {
	case r := <-ch:
		if s.log != nil {
			for _, l := range r.lines {
				io.WriteString(s.log, "; <- "+l+"\n")
			}
		}
		for _, l := range r.lines {
			if strings.Contains(l, "solver died") {
				s.dead = true
			}
		}
		return r.lines
	case <-time.After(limit):
		s.dead = true
		if s.cmd != nil && s.cmd.Process != nil {
			s.cmd.Process.Kill()
		}
		atomic.AddInt64(&gSolverHung, 1)
		return []string{"(error \"solver hung; killed\")"}
	}
}

type Verdict int

const (
	Unsat Verdict = iota
	Sat
	Unknown
)

func (v Verdict) String() string { return [...]string{"unsat", "sat", "unknown"}[v] }

// CheckSat runs (check-sat) in the current context.
func (s *Solver) CheckSat() Verdict {
	t0 := time.Now()
	s.send("(check-sat)")
	lines := s.sync()
	d := time.Since(t0).Nanoseconds()
	s.Queries++
	s.TimeNs += d
	if d > 400e6 && os.Getenv("GOSYM_SLOW") != "" {
		fmt.Fprintf(os.Stderr, "SLOW %.1fs after: %s\n", float64(d)/1e9, s.last)
	}
	atomic.AddInt64(&gQueries, 1)
	atomic.AddInt64(&gSolverNs, d)
	v := Unknown
	errSeen := false
	for _, l := range lines {
		switch {
		case strings.HasPrefix(l, "(error"):
			errSeen = true
			if os.Getenv("GOSYM_DEBUG") != "" {
				fmt.Fprintln(os.Stderr, "SOLVER:", l)
			}
		case l == "sat":
			v = Sat
		case l == "unsat":
			v = Unsat
		case l == "unknown":
			v = Unknown
		}
	}
	if errSeen {
		atomic.AddInt64(&gSolverErr, 1)
		v = Unknown
	}
	switch v {
	case Sat:
		atomic.AddInt64(&gSat, 1)
	case Unsat:
		atomic.AddInt64(&gUnsat, 1)
	default:
		atomic.AddInt64(&gUnknown, 1)
	}
	return v
}

// CheckSatMirror asks the mirror solver the same question (same assertion stack).
func (s *Solver) CheckSatMirror() (Verdict, bool) {
	if s.mirror == nil || s.mirror.dead {
		return Unknown, false
	}
	return s.mirror.CheckSat(), true
}

// GetValue evaluates the given SMT expressions in the current model and
// returns the raw value text per expression.
func (s *Solver) GetValue(exprs []string) ([]string, bool) {
	if len(exprs) == 0 {
		return nil, true
	}
	s.send("(get-value (" + strings.Join(exprs, " ") + "))")
	lines := s.sync()
	txt := strings.Join(lines, " ")
	if strings.Contains(txt, "(error") {
		return nil, false
	}
	sx, err := parseSexp(txt)
	if err != nil || len(sx.list) != len(exprs) {
		return nil, false
	}
	out := make([]string, len(exprs))
	for i, pair := range sx.list {
		if len(pair.list) != 2 {
			return nil, false
		}
		out[i] = pair.list[1].String()
	}
	return out, true
}

func (s *Solver) Close() {
	if s.mirror != nil {
		s.mirror.Close()
		s.mirror = nil
	}
	if s.cmd != nil && s.cmd.Process != nil {
		s.send("(exit)")
		s.in.Close()
		done := make(chan struct{})
		go func() { s.cmd.Wait(); close(done) }()
		select {
		case <-done:
		case <-time.After(2 * time.Second):
			s.cmd.Process.Kill()
		}
	}
}

// ---- minimal s-expression parser ----

type sexp struct {
	atom string
	list []*sexp
	isL  bool
}

func (s *sexp) String() string {
	if !s.isL {
		return s.atom
	}
	var parts []string
	for _, c := range s.list {
		parts = append(parts, c.String())
	}
	return "(" + strings.Join(parts, " ") + ")"
}

func parseSexp(txt string) (*sexp, error) {
	pos := 0
	var parse func() (*sexp, error)
	skip := func() {
		for pos < len(txt) && (txt[pos] == ' ' || txt[pos] == '\n' || txt[pos] == '\t' || txt[pos] == '\r') {
			pos++
		}
	}
	parse = func() (*sexp, error) {
		skip()
		if pos >= len(txt) {
			return nil, fmt.Errorf("eof")
		}
		if txt[pos] == '(' {
			pos++
			n := &sexp{isL: true}
			for {
				skip()
				if pos >= len(txt) {
					return nil, fmt.Errorf("eof in list")
				}
				if txt[pos] == ')' {
					pos++
					return n, nil
				}
				c, err := parse()
				if err != nil {
					return nil, err
				}
				n.list = append(n.list, c)
			}
		}
		start := pos
		if txt[pos] == '|' {
			pos++
			for pos < len(txt) && txt[pos] != '|' {
				pos++
			}
			pos++
			return &sexp{atom: txt[start:pos]}, nil
		}
		if txt[pos] == '"' {
			pos++
			for pos < len(txt) {
				if txt[pos] == '"' {
					if pos+1 < len(txt) && txt[pos+1] == '"' {
						pos += 2
						continue
					}
					break
				}
				pos++
			}
			pos++
			return &sexp{atom: txt[start:pos]}, nil
		}
		for pos < len(txt) && !strings.ContainsRune(" \n\t\r()", rune(txt[pos])) {
			pos++
		}
		return &sexp{atom: txt[start:pos]}, nil
	}
	return parse()
}

// parseBVValue parses #x.. / #b.. / (_ bvN w) into uint64.
func parseBVValue(s string) (uint64, bool) {
	s = strings.TrimSpace(s)
	var v uint64
	switch {
	case strings.HasPrefix(s, "#x"):
		_, err := fmt.Sscanf(s[2:], "%x", &v)
		return v, err == nil
	case strings.HasPrefix(s, "#b"):
		for _, c := range s[2:] {
			v = v<<1 | uint64(c-'0')
		}
		return v, true
	case strings.HasPrefix(s, "(_ bv"):
		_, err := fmt.Sscanf(s, "(_ bv%d", &v)
		return v, err == nil
	}
	return 0, false
}

func parseIntValue(s string) (int64, bool) {
	s = strings.TrimSpace(s)
	var v int64
	if strings.HasPrefix(s, "(-") {
		_, err := fmt.Sscanf(s, "(- %d)", &v)
		return -v, err == nil
	}
	_, err := fmt.Sscanf(s, "%d", &v)
	return v, err == nil
}
