package main

// Lazily initialised symbolic BER trees (what ber.ReadPacket can return), and
// the wire normalisation vWire for trees built with the ber constructors.

import (
	"fmt"
	"go/types"
	"strconv"
	"strings"

	"golang.org/x/tools/go/ssa"
)

type SymNode struct {
	name   string
	path   string
	depth  int
	class  *Term // BV8
	ttype  *Term // BV8
	tag    *Term // BV64
	data   Str
	nkids  *Term // BV64
	W      int
	cell   *Value
	ival   *Term
	widths map[string]int
	defW   int
	root   string
	enc    *Str
}

type lazyKid struct {
	parent *SymNode
	idx    int
}

func (lz *lazyKid) materialise(in *Interp) Value {
	p := lz.parent
	path := strconv.Itoa(lz.idx)
	if p.path != "" {
		path = p.path + "." + path
	}
	k := in.newSymNode(p.root, path, p.depth-1, p.widths, p.defW)
	return k.cell
}

func pathName(path string) string { return path }

func (in *Interp) berType(name string) types.Type {
	return in.P.Ber.Type(name).Type()
}

func structFieldIndex(st *types.Struct, name string) int {
	for i := 0; i < st.NumFields(); i++ {
		if st.Field(i).Name() == name {
			return i
		}
	}
	panic("no field " + name)
}

// newBufferCell creates a *bytes.Buffer cell holding content.
func (in *Interp) newBufferCell(content Str) *Value {
	bt := in.P.Ber.Type("Packet").Type().Underlying().(*types.Struct)
	dataT := bt.Field(structFieldIndex(bt, "Data")).Type().(*types.Pointer).Elem()
	cell := new(Value)
	*cell = in.zero(dataT)
	o := in.newObj("buffer")
	o.str = content
	in.side[cell] = o
	return cell
}

func parseWidths(spec string) (map[string]int, int) {
	// "def=3;=4;1=9;2=2"  (path=width), def = default
	m := map[string]int{}
	def := 3
	for _, part := range strings.Split(spec, ";") {
		part = strings.TrimSpace(part)
		if part == "" {
			continue
		}
		kv := strings.SplitN(part, "=", 2)
		if len(kv) != 2 {
			continue
		}
		n, _ := strconv.Atoi(kv[1])
		if kv[0] == "def" {
			def = n
		} else {
			m[kv[0]] = n
		}
	}
	return m, def
}

func widthFor(widths map[string]int, def int, path string) int {
	if w, ok := widths[path]; ok {
		return w
	}
	// wildcard patterns: replace numeric components by * progressively (last first)
	parts := strings.Split(path, ".")
	for i := len(parts) - 1; i >= 0; i-- {
		save := parts[i]
		parts[i] = "*"
		if w, ok := widths[strings.Join(parts, ".")]; ok {
			return w
		}
		_ = save
	}
	return def
}

func (in *Interp) newSymNode(root, path string, depth int, widths map[string]int, defW int) *SymNode {
	tt := in.tt
	name := root
	if path != "" {
		name = root + "/" + path
	}
	n := &SymNode{name: name, root: root, path: path, depth: depth, widths: widths, defW: defW}
	n.class = in.inputVar(name+".class", "bv8", BV(8))
	n.ttype = in.inputVar(name+".type", "bv8", BV(8))
	n.tag = in.inputVar(name+".tag", "bv64", BV(64))
	n.data = in.inputStr(name + ".data")
	n.nkids = in.inputVar(name+".n", "bv64", BV(64))
	n.W = widthFor(widths, defW, path)
	if depth <= 0 {
		n.W = 0
	}
	c8 := func(v uint64) *Term { return tt.BVConst(v, 8) }
	c64 := func(v uint64) *Term { return tt.BVConst(v, 64) }
	in.assume(tt.Or(tt.Eq(n.class, c8(0)), tt.Eq(n.class, c8(64)), tt.Eq(n.class, c8(128)), tt.Eq(n.class, c8(192))))
	in.assume(tt.Or(tt.Eq(n.ttype, c8(0)), tt.Eq(n.ttype, c8(32))))
	in.assume(tt.BVCmp("bvult", n.tag, c64(1<<63)))
	in.assume(tt.BVCmp("bvule", n.nkids, c64(uint64(n.W))))
	prim := tt.Eq(n.ttype, c8(0))
	in.assume(tt.Implies(prim, tt.Eq(n.nkids, c64(0))))
	// constructed with no children has empty content
	in.assume(tt.Implies(tt.And(tt.Not(prim), tt.Eq(n.nkids, c64(0))), tt.Eq(n.data.LenTerm(tt), c64(0))))
	// every child contributes at least an identifier and a length octet to its parent's content
	in.assume(tt.BVCmp("bvuge", n.data.LenTerm(tt), tt.BVOp("bvshl", n.nkids, c64(1))))
	if path != "" {
		// a child that looks like an end-of-contents marker is rejected by the reader
		in.assume(tt.Not(tt.And(univPrimOf(tt, n), tt.Eq(n.tag, c64(0)), tt.Eq(n.data.LenTerm(tt), c64(0)))))
	}
	// float / generalized time payloads are opaque: outside the model
	univPrim := tt.And(tt.Eq(n.class, c8(0)), prim)
	in.assume(tt.Not(tt.And(univPrim, tt.Or(tt.Eq(n.tag, c64(9)), tt.Eq(n.tag, c64(24))))))
	// UTF8String / PrintableString / IA5String carry content-validity rules in the
	// reader (invalid content = read error); they yield the same Value kind as
	// OCTET STRING, through which they are modelled
	in.assume(tt.Not(tt.And(univPrim, tt.Or(tt.Eq(n.tag, c64(12)), tt.Eq(n.tag, c64(19)), tt.Eq(n.tag, c64(22))))))

	// build the ber.Packet struct cell
	pt := in.P.Ber.Type("Packet").Type()
	st := pt.Underlying().(*types.Struct)
	cell := new(Value)
	s := in.zero(pt).(Struct)
	idS := s[structFieldIndex(st, "Identifier")].(Struct)
	idT := st.Field(structFieldIndex(st, "Identifier")).Type().Underlying().(*types.Struct)
	idS[structFieldIndex(idT, "ClassType")] = n.class
	idS[structFieldIndex(idT, "TagType")] = n.ttype
	idS[structFieldIndex(idT, "Tag")] = n.tag
	s[structFieldIndex(st, "Value")] = &SymIface{node: n}
	s[structFieldIndex(st, "ByteValue")] = SymBytes{s: n.data}
	s[structFieldIndex(st, "Data")] = in.newBufferCell(n.data)
	arr := make([]Value, n.W)
	for i := range arr {
		arr[i] = &lazyKid{parent: n, idx: i}
	}
	if n.W == 0 {
		s[structFieldIndex(st, "Children")] = Slice{arr: &arr, n: 0, cp: 0}
	} else {
		s[structFieldIndex(st, "Children")] = Slice{arr: &arr, symLen: n.nkids, cp: n.W}
	}
	*cell = s
	n.cell = cell
	in.symNode[cell] = n
	return n
}

func univPrimOf(tt *TermTable, n *SymNode) *Term {
	return tt.And(tt.Eq(n.class, tt.BVConst(0, 8)), tt.Eq(n.ttype, tt.BVConst(0, 8)))
}

func (n *SymNode) valueKindIs(in *Interp, kind string) *Term {
	tt := in.tt
	c8 := func(v uint64) *Term { return tt.BVConst(v, 8) }
	c64 := func(v uint64) *Term { return tt.BVConst(v, 64) }
	up := tt.And(tt.Eq(n.class, c8(0)), tt.Eq(n.ttype, c8(0)))
	isBool := tt.And(up, tt.Eq(n.tag, c64(1)))
	isInt := tt.And(up, tt.Or(tt.Eq(n.tag, c64(2)), tt.Eq(n.tag, c64(10))))
	isStr := tt.And(up, tt.Or(tt.Eq(n.tag, c64(4)), tt.Eq(n.tag, c64(12)), tt.Eq(n.tag, c64(19)), tt.Eq(n.tag, c64(22))))
	switch kind {
	case "bool":
		return isBool
	case "int64":
		return isInt
	case "string":
		return isStr
	case "nil":
		return tt.Not(tt.Or(isBool, isInt, isStr))
	}
	panic("valueKindIs " + kind)
}

// parseIntTerm is ber.ParseInt64(data) as a term (0 when longer than 8 octets).
func (in *Interp) parseIntOf(s Str) *Term {
	tt := in.tt
	if vals, ok := valuesOfStr(s); ok {
		if len(vals) > 8 || len(vals) == 0 {
			return tt.BVConst(0, 64)
		}
		var acc *Term
		for _, v := range vals {
			b := in.byteTerm(v)
			if acc == nil {
				acc = b
			} else {
				acc = tt.Concat(acc, b)
			}
		}
		return tt.SignExt(acc, 64)
	}
	L := s.LenTerm(tt)
	res := tt.BVConst(0, 64)
	for k := 8; k >= 1; k-- {
		var acc *Term
		for i := 0; i < k; i++ {
			b := in.byteTerm(in.strByte(s, i))
			if acc == nil {
				acc = b
			} else {
				acc = tt.Concat(acc, b)
			}
		}
		res = tt.Ite(tt.Eq(L, tt.BVConst(uint64(k), 64)), tt.SignExt(acc, 64), res)
	}
	return res
}

func (n *SymNode) intValue(in *Interp) *Term {
	if n.ival == nil {
		v := in.tt.Fresh(n.name+".ival", BV(64))
		in.assume(in.tt.Eq(v, in.parseIntOf(n.data)))
		n.ival = v
	}
	return n.ival
}

func (in *Interp) symTypeAssert(fr *frame, si *SymIface, x *ssa.TypeAssert) Value {
	tt := in.tt
	at := x.AssertedType
	n := si.node
	var cond *Term
	kind := ""
	switch {
	case types.Identical(at, types.Typ[types.Bool]):
		kind = "bool"
	case types.Identical(at, types.Typ[types.Int64]):
		kind = "int64"
	case types.Identical(at, types.Typ[types.String]):
		kind = "string"
	}
	if kind != "" {
		cond = n.valueKindIs(in, kind)
	} else if ai, ok := at.Underlying().(*types.Interface); ok && ai.NumMethods() == 0 {
		cond = tt.Not(n.valueKindIs(in, "nil"))
	} else {
		cond = tt.False()
	}
	ok := in.branch(boolVal(cond), "type-assert "+fr.where())
	var res Value
	if ok {
		switch kind {
		case "bool":
			res = boolVal(tt.Not(tt.Eq(n.intValue(in), tt.BVConst(0, 64))))
		case "int64":
			res = in.fromTerm(n.intValue(in), types.Typ[types.Int64])
		case "string":
			res = n.data
		default:
			res = si
		}
	} else {
		res = in.zero(at)
	}
	if x.CommaOk {
		return Tuple{res, ok}
	}
	if !ok {
		o := in.newObj("error")
		o.str = CStr("interface conversion: interface {} is <wire value>, not " + at.String())
		o.b = true
		fr.tpanic("type-assert", in.ifaceOf(o))
	}
	return res
}

// ------------------------------------------------------------------
// vWire: what ber.ReadPacket returns for p.Bytes(), for a tree built with
// the ber constructors (contract of asn1-ber's reader, DESIGN §5.1).

func (in *Interp) wireCopy(fr *frame, p *Value) *Value {
	if p == nil {
		return nil
	}
	if _, ok := in.symNode[p]; ok {
		return p // already wire shaped
	}
	pt := in.P.Ber.Type("Packet").Type()
	st := pt.Underlying().(*types.Struct)
	src := (*p).(Struct)
	dst := in.zero(pt).(Struct)
	fi := func(name string) int { return structFieldIndex(st, name) }
	idT := st.Field(fi("Identifier")).Type().Underlying().(*types.Struct)
	id := copyVal(src[fi("Identifier")]).(Struct)
	dst[fi("Identifier")] = id
	class := id[structFieldIndex(idT, "ClassType")]
	ttype := id[structFieldIndex(idT, "TagType")]
	tag := id[structFieldIndex(idT, "Tag")]
	var data Str
	if dp, _ := src[fi("Data")].(*Value); dp != nil {
		if o := in.side[dp]; o != nil {
			data = o.str
		}
	}
	dst[fi("Data")] = in.newBufferCell(data)
	// children
	kids := src[fi("Children")].(Slice)
	if kids.symLen != nil {
		in.unsupported("vWire on a symbolic-length child list")
	}
	arr := make([]Value, 0, kids.n)
	for i := 0; i < kids.n; i++ {
		kp, _ := in.load(&(*kids.arr)[kids.off+i]).(*Value)
		arr = append(arr, in.wireCopy(fr, kp))
	}
	dst[fi("Children")] = Slice{arr: &arr, n: len(arr), cp: len(arr)}
	// the wire carries the node's bytes, not its tree: AppendChild copied each child's
	// encoding when it was appended, so a child changed afterwards is not what travels
	if in.staleChild != "" {
		in.unsupported("vWire: %s (the node's bytes no longer describe its tree)", in.staleChild)
	}
	isConstructed := in.branch(in.eqVal(ttype, Int(32)), "wire type")
	dst[fi("Value")] = Iface{}
	if !isConstructed {
		if len(arr) > 0 {
			// a primitive node carrying children does not survive the wire:
			// its content is the children's encodings and it has no children
			dst[fi("Children")] = Slice{arr: &[]Value{}, n: 0, cp: 0}
		}
		if in.branch(in.eqVal(class, Int(0)), "wire class") {
			dst[fi("ByteValue")] = SymBytes{s: data}
			orig := src[fi("Value")]
			tagIs := func(k uint64) bool { return in.branch(in.eqVal(tag, Int(k)), "wire tag") }
			switch {
			case tagIs(1):
				dst[fi("Value")] = Iface{T: types.Typ[types.Bool], V: in.wireBool(orig, data)}
			case tagIs(2), tagIs(10):
				dst[fi("Value")] = Iface{T: types.Typ[types.Int64], V: in.wireInt(orig, data)}
			case tagIs(4), tagIs(12), tagIs(19), tagIs(22):
				dst[fi("Value")] = Iface{T: types.Typ[types.String], V: data}
			case tagIs(9), tagIs(24):
				in.unsupported("vWire: float/time payload")
			}
		}
	}
	cell := new(Value)
	*cell = dst
	return cell
}

func (in *Interp) wireInt(orig Value, data Str) Value {
	if _, ok := data.ConcreteLen(); ok {
		return in.fromTerm(in.parseIntOf(data), types.Typ[types.Int64])
	}
	// content produced by a summarised encodeInteger(x): ParseInt64(encodeInteger(x)) == x (lemma L-int)
	if it, ok := orig.(Iface); ok && it.T != nil && isInteger(it.T) {
		w, s := intInfo(it.T)
		switch v := it.V.(type) {
		case Int:
			return normInt(uint64(v), 64, true)
		case *Term:
			if w == 64 {
				return v
			}
			if s {
				return in.tt.SignExt(v, 64)
			}
			return in.tt.ZeroExt(v, 64)
		}
	}
	return in.fromTerm(in.parseIntOf(data), types.Typ[types.Int64])
}

func (in *Interp) wireBool(orig Value, data Str) Value {
	if _, ok := data.ConcreteLen(); ok {
		return boolVal(in.tt.Not(in.tt.Eq(in.parseIntOf(data), in.tt.BVConst(0, 64))))
	}
	if it, ok := orig.(Iface); ok && it.T != nil && isBool(it.T) {
		return it.V
	}
	return boolVal(in.tt.Not(in.tt.Eq(in.parseIntOf(data), in.tt.BVConst(0, 64))))
}

var _ = fmt.Sprintf
