package main

// SMT term DAG.  Terms are interned per TermTable (one table per explored
// path), so pointer equality is structural equality.

import (
	"fmt"
	"math/bits"
	"strings"
)

type SortKind int

const (
	SBool SortKind = iota
	SBV
	SSeq // (Seq (_ BitVec 8))
	SInt
)

type Sort struct {
	K SortKind
	W int // bit width for SBV
}

func (s Sort) String() string {
	switch s.K {
	case SBool:
		return "Bool"
	case SBV:
		return fmt.Sprintf("(_ BitVec %d)", s.W)
	case SSeq:
		return "(Seq (_ BitVec 8))"
	case SInt:
		return "Int"
	}
	return "?"
}

var (
	BoolSort = Sort{K: SBool}
	SeqSort  = Sort{K: SSeq}
	IntSort  = Sort{K: SInt}
)

func BV(w int) Sort { return Sort{K: SBV, W: w} }

type Term struct {
	id    int
	op    string // "const", "var", or an SMT operator
	args  []*Term
	sort  Sort
	cval  uint64 // for const BV / bool (0/1) / int
	name  string // for var; for indexed ops the full head e.g. "(_ extract 7 0)"
	ref   string // SMT text once emitted
	isDef bool
}

type TermTable struct {
	intern map[string]*Term
	next   int
	// pending SMT commands (declarations / definitions) not yet sent
	pending []string
	vars    []*Term
	fresh   int
	// byte view of input strings: seq var -> index -> BV8 var (see Interp.atomByte)
	byteVars map[*Term]map[int]*Term
}

func NewTermTable() *TermTable {
	return &TermTable{intern: map[string]*Term{}, byteVars: map[*Term]map[int]*Term{}}
}

func (tt *TermTable) mk(op, name string, sort Sort, cval uint64, args ...*Term) *Term {
	var sb strings.Builder
	sb.WriteString(op)
	sb.WriteByte('|')
	sb.WriteString(name)
	sb.WriteByte('|')
	fmt.Fprintf(&sb, "%d.%d|%d", sort.K, sort.W, cval)
	for _, a := range args {
		fmt.Fprintf(&sb, ",%d", a.id)
	}
	k := sb.String()
	if t, ok := tt.intern[k]; ok {
		return t
	}
	tt.next++
	t := &Term{id: tt.next, op: op, name: name, sort: sort, cval: cval, args: args}
	tt.intern[k] = t
	return t
}

func mask(w int) uint64 {
	if w >= 64 {
		return ^uint64(0)
	}
	return (uint64(1) << uint(w)) - 1
}

func (tt *TermTable) BVConst(v uint64, w int) *Term {
	return tt.mk("const", "", BV(w), v&mask(w))
}
func (tt *TermTable) IntConst(v int64) *Term { return tt.mk("const", "", IntSort, uint64(v)) }
func (tt *TermTable) Bool(b bool) *Term {
	if b {
		return tt.mk("const", "", BoolSort, 1)
	}
	return tt.mk("const", "", BoolSort, 0)
}
func (tt *TermTable) True() *Term  { return tt.Bool(true) }
func (tt *TermTable) False() *Term { return tt.Bool(false) }

func smtName(n string) string {
	return "|" + strings.NewReplacer("|", "_", "\\", "_").Replace(n) + "|"
}

// Var declares (once) a named variable.
func (tt *TermTable) Var(name string, sort Sort) *Term {
	k := fmt.Sprintf("var|%s|%d.%d|0", name, sort.K, sort.W)
	if t, ok := tt.intern[k]; ok {
		return t
	}
	t := tt.mk("var", name, sort, 0)
	// declared lazily, on first reference from an emitted term (see Ref)
	tt.vars = append(tt.vars, t)
	return t
}

func (tt *TermTable) Fresh(prefix string, sort Sort) *Term {
	tt.fresh++
	return tt.Var(fmt.Sprintf("%s!%d", prefix, tt.fresh), sort)
}

func (t *Term) IsConst() bool { return t.op == "const" }
func (t *Term) IsTrue() bool  { return t.op == "const" && t.sort.K == SBool && t.cval == 1 }
func (t *Term) IsFalse() bool { return t.op == "const" && t.sort.K == SBool && t.cval == 0 }

func sext(v uint64, w int) int64 {
	if w >= 64 {
		return int64(v)
	}
	sh := uint(64 - w)
	return int64(v<<sh) >> sh
}

// ---- boolean connectives ----

func (tt *TermTable) Not(a *Term) *Term {
	if a.IsConst() {
		return tt.Bool(a.cval == 0)
	}
	if a.op == "not" {
		return a.args[0]
	}
	return tt.mk("not", "", BoolSort, 0, a)
}

func (tt *TermTable) And(as ...*Term) *Term {
	var out []*Term
	for _, a := range as {
		if a.IsTrue() {
			continue
		}
		if a.IsFalse() {
			return tt.False()
		}
		if a.op == "and" {
			out = append(out, a.args...)
		} else {
			out = append(out, a)
		}
	}
	if len(out) == 0 {
		return tt.True()
	}
	if len(out) == 1 {
		return out[0]
	}
	return tt.mk("and", "", BoolSort, 0, out...)
}

func (tt *TermTable) Or(as ...*Term) *Term {
	var out []*Term
	for _, a := range as {
		if a.IsFalse() {
			continue
		}
		if a.IsTrue() {
			return tt.True()
		}
		if a.op == "or" {
			out = append(out, a.args...)
		} else {
			out = append(out, a)
		}
	}
	if len(out) == 0 {
		return tt.False()
	}
	if len(out) == 1 {
		return out[0]
	}
	return tt.mk("or", "", BoolSort, 0, out...)
}

func (tt *TermTable) Implies(a, b *Term) *Term { return tt.Or(tt.Not(a), b) }

func (tt *TermTable) Ite(c, a, b *Term) *Term {
	if c.IsTrue() {
		return a
	}
	if c.IsFalse() {
		return b
	}
	if a == b {
		return a
	}
	if a.sort.K == SBool {
		if a.IsTrue() && b.IsFalse() {
			return c
		}
		if a.IsFalse() && b.IsTrue() {
			return tt.Not(c)
		}
	}
	return tt.mk("ite", "", a.sort, 0, c, a, b)
}

func (tt *TermTable) Eq(a, b *Term) *Term {
	if a == b {
		return tt.True()
	}
	if a.sort != b.sort {
		panic(fmt.Sprintf("Eq sort mismatch %v vs %v (%s / %s)", a.sort, b.sort, a.op, b.op))
	}
	if a.IsConst() && b.IsConst() {
		return tt.Bool(a.cval == b.cval)
	}
	if a.sort.K == SBool {
		if a.IsConst() {
			a, b = b, a
		}
		if b.IsTrue() {
			return a
		}
		if b.IsFalse() {
			return tt.Not(a)
		}
	}
	if a.id > b.id {
		a, b = b, a
	}
	return tt.mk("=", "", BoolSort, 0, a, b)
}

// ---- bit-vectors ----

func (tt *TermTable) bvBin(op string, a, b *Term) *Term {
	w := a.sort.W
	if a.sort != b.sort {
		panic(fmt.Sprintf("bv %s sort mismatch %v vs %v", op, a.sort, b.sort))
	}
	if a.IsConst() && b.IsConst() {
		x, y := a.cval, b.cval
		var r uint64
		ok := true
		switch op {
		case "bvadd":
			r = x + y
		case "bvsub":
			r = x - y
		case "bvmul":
			r = x * y
		case "bvand":
			r = x & y
		case "bvor":
			r = x | y
		case "bvxor":
			r = x ^ y
		case "bvshl":
			if y >= uint64(w) {
				r = 0
			} else {
				r = x << y
			}
		case "bvlshr":
			if y >= uint64(w) {
				r = 0
			} else {
				r = x >> y
			}
		case "bvashr":
			sx := sext(x, w)
			if y >= uint64(w) {
				if sx < 0 {
					r = ^uint64(0)
				} else {
					r = 0
				}
			} else {
				r = uint64(sx >> y)
			}
		case "bvudiv":
			if y == 0 {
				r = ^uint64(0)
			} else {
				r = x / y
			}
		case "bvurem":
			if y == 0 {
				r = x
			} else {
				r = x % y
			}
		case "bvsdiv":
			sx, sy := sext(x, w), sext(y, w)
			if sy == 0 {
				ok = false
			} else if sy == -1 {
				r = uint64(-sx)
			} else {
				r = uint64(sx / sy)
			}
		case "bvsrem":
			sx, sy := sext(x, w), sext(y, w)
			if sy == 0 {
				ok = false
			} else if sy == -1 {
				r = 0
			} else {
				r = uint64(sx % sy)
			}
		default:
			ok = false
		}
		if ok {
			return tt.BVConst(r, w)
		}
	}
	// light identities
	switch op {
	case "bvadd", "bvor", "bvxor":
		if a.IsConst() && a.cval == 0 {
			return b
		}
		if b.IsConst() && b.cval == 0 {
			return a
		}
	case "bvsub", "bvshl", "bvlshr", "bvashr":
		if b.IsConst() && b.cval == 0 {
			return a
		}
	case "bvand":
		if (a.IsConst() && a.cval == 0) || (b.IsConst() && b.cval == 0) {
			return tt.BVConst(0, w)
		}
		if a.IsConst() && a.cval == mask(w) {
			return b
		}
		if b.IsConst() && b.cval == mask(w) {
			return a
		}
	case "bvmul":
		if a.IsConst() && a.cval == 1 {
			return b
		}
		if b.IsConst() && b.cval == 1 {
			return a
		}
	}
	return tt.mk(op, "", a.sort, 0, a, b)
}

func (tt *TermTable) BVOp(op string, a, b *Term) *Term { return tt.bvBin(op, a, b) }

func (tt *TermTable) BVNot(a *Term) *Term {
	if a.IsConst() {
		return tt.BVConst(^a.cval, a.sort.W)
	}
	return tt.mk("bvnot", "", a.sort, 0, a)
}
func (tt *TermTable) BVNeg(a *Term) *Term {
	if a.IsConst() {
		return tt.BVConst(-a.cval, a.sort.W)
	}
	return tt.mk("bvneg", "", a.sort, 0, a)
}

func (tt *TermTable) BVCmp(op string, a, b *Term) *Term {
	if a.sort != b.sort {
		panic(fmt.Sprintf("bvcmp %s sort mismatch %v vs %v", op, a.sort, b.sort))
	}
	w := a.sort.W
	if a.IsConst() && b.IsConst() {
		x, y := a.cval, b.cval
		sx, sy := sext(x, w), sext(y, w)
		switch op {
		case "bvult":
			return tt.Bool(x < y)
		case "bvule":
			return tt.Bool(x <= y)
		case "bvugt":
			return tt.Bool(x > y)
		case "bvuge":
			return tt.Bool(x >= y)
		case "bvslt":
			return tt.Bool(sx < sy)
		case "bvsle":
			return tt.Bool(sx <= sy)
		case "bvsgt":
			return tt.Bool(sx > sy)
		case "bvsge":
			return tt.Bool(sx >= sy)
		}
	}
	if a == b {
		switch op {
		case "bvult", "bvugt", "bvslt", "bvsgt":
			return tt.False()
		default:
			return tt.True()
		}
	}
	return tt.mk(op, "", BoolSort, 0, a, b)
}

func (tt *TermTable) Extract(hi, lo int, a *Term) *Term {
	if lo == 0 && hi == a.sort.W-1 {
		return a
	}
	w := hi - lo + 1
	if a.IsConst() {
		return tt.BVConst((a.cval>>uint(lo))&mask(w), w)
	}
	// extract of zero/sign extend of something narrower or equal
	if (a.op == "zext" || a.op == "sext") && lo == 0 && w <= a.args[0].sort.W {
		return tt.Extract(hi, lo, a.args[0])
	}
	return tt.mk("extract", fmt.Sprintf("(_ extract %d %d)", hi, lo), BV(w), 0, a)
}

func (tt *TermTable) ZeroExt(a *Term, to int) *Term {
	if to == a.sort.W {
		return a
	}
	if a.IsConst() {
		return tt.BVConst(a.cval, to)
	}
	return tt.mk("zext", fmt.Sprintf("(_ zero_extend %d)", to-a.sort.W), BV(to), 0, a)
}

func (tt *TermTable) SignExt(a *Term, to int) *Term {
	if to == a.sort.W {
		return a
	}
	if a.IsConst() {
		return tt.BVConst(uint64(sext(a.cval, a.sort.W)), to)
	}
	return tt.mk("sext", fmt.Sprintf("(_ sign_extend %d)", to-a.sort.W), BV(to), 0, a)
}

func (tt *TermTable) Concat(a, b *Term) *Term {
	w := a.sort.W + b.sort.W
	if a.IsConst() && b.IsConst() && w <= 64 {
		return tt.BVConst(a.cval<<uint(b.sort.W)|b.cval, w)
	}
	// concat(extract(h,k,x), extract(k-1,l,x)) = extract(h,l,x)
	if a.op == "extract" && b.op == "extract" && a.args[0] == b.args[0] {
		var ah, al, bh, bl int
		fmt.Sscanf(a.name, "(_ extract %d %d)", &ah, &al)
		fmt.Sscanf(b.name, "(_ extract %d %d)", &bh, &bl)
		if al == bh+1 {
			return tt.Extract(ah, bl, a.args[0])
		}
	}
	return tt.mk("concat", "", BV(w), 0, a, b)
}

// ---- sequences of bytes ----

func (tt *TermTable) SeqEmpty() *Term { return tt.mk("seq.empty", "", SeqSort, 0) }
func (tt *TermTable) SeqUnit(b *Term) *Term {
	return tt.mk("seq.unit", "", SeqSort, 0, b)
}
func (tt *TermTable) SeqConcat(as ...*Term) *Term {
	var out []*Term
	for _, a := range as {
		if a.op == "seq.empty" {
			continue
		}
		if a.op == "seq.++" {
			out = append(out, a.args...)
		} else {
			out = append(out, a)
		}
	}
	if len(out) == 0 {
		return tt.SeqEmpty()
	}
	if len(out) == 1 {
		return out[0]
	}
	return tt.mk("seq.++", "", SeqSort, 0, out...)
}
func (tt *TermTable) SeqLen(a *Term) *Term { return tt.mk("seq.len", "", IntSort, 0, a) }
func (tt *TermTable) SeqNth(a, i *Term) *Term {
	return tt.mk("seq.nth", "", BV(8), 0, a, i)
}
func (tt *TermTable) SeqExtract(a, off, n *Term) *Term {
	return tt.mk("seq.extract", "", SeqSort, 0, a, off, n)
}
func (tt *TermTable) BV2Nat(a *Term) *Term {
	if a.IsConst() {
		return tt.IntConst(int64(a.cval))
	}
	return tt.mk("bv2nat", "", IntSort, 0, a)
}
func (tt *TermTable) IntOp(op string, a, b *Term) *Term {
	s := IntSort
	switch op {
	case "<", "<=", ">", ">=":
		s = BoolSort
	}
	return tt.mk(op, "", s, 0, a, b)
}

// UF application (uninterpreted function); the function is declared on first use.
func (tt *TermTable) UF(name string, ret Sort, args ...*Term) *Term {
	k := "ufdecl|" + name
	if _, ok := tt.intern[k]; !ok {
		var as []string
		for _, a := range args {
			as = append(as, a.sort.String())
		}
		tt.intern[k] = &Term{}
		tt.pending = append(tt.pending, fmt.Sprintf("(declare-fun %s (%s) %s)", smtName(name), strings.Join(as, " "), ret))
	}
	if len(args) == 0 {
		return tt.Var(name, ret)
	}
	return tt.mk("uf", smtName(name), ret, 0, args...)
}

// ---- emission ----

func (t *Term) lit() string {
	switch t.sort.K {
	case SBool:
		if t.cval == 1 {
			return "true"
		}
		return "false"
	case SBV:
		if t.sort.W%4 == 0 {
			return fmt.Sprintf("#x%0*x", t.sort.W/4, t.cval)
		}
		return fmt.Sprintf("#b%0*b", t.sort.W, t.cval)
	case SInt:
		v := int64(t.cval)
		if v < 0 {
			return fmt.Sprintf("(- %d)", -v)
		}
		return fmt.Sprintf("%d", v)
	}
	return "?"
}

// Ref returns SMT text denoting t, queueing define-funs for shared structure.
func (tt *TermTable) Ref(t *Term) string {
	if t.ref != "" {
		return t.ref
	}
	switch t.op {
	case "const":
		t.ref = t.lit()
		return t.ref
	case "var":
		tt.declare(t)
		return t.ref
	case "seq.empty":
		t.ref = "(as seq.empty (Seq (_ BitVec 8)))"
		return t.ref
	}
	// iterative post-order to avoid deep recursion
	type fr struct {
		t *Term
		i int
	}
	stack := []fr{{t, 0}}
	for len(stack) > 0 {
		f := &stack[len(stack)-1]
		if f.t.ref != "" {
			stack = stack[:len(stack)-1]
			continue
		}
		if f.t.op == "const" {
			f.t.ref = f.t.lit()
			stack = stack[:len(stack)-1]
			continue
		}
		if f.t.op == "seq.empty" {
			f.t.ref = "(as seq.empty (Seq (_ BitVec 8)))"
			stack = stack[:len(stack)-1]
			continue
		}
		if f.t.op == "var" {
			tt.declare(f.t)
			stack = stack[:len(stack)-1]
			continue
		}
		if f.i < len(f.t.args) {
			a := f.t.args[f.i]
			f.i++
			if a.ref == "" {
				stack = append(stack, fr{a, 0})
			}
			continue
		}
		x := f.t
		var sb strings.Builder
		head := x.op
		switch x.op {
		case "extract", "zext", "sext", "uf":
			head = x.name
		}
		sb.WriteByte('(')
		sb.WriteString(head)
		for _, a := range x.args {
			sb.WriteByte(' ')
			sb.WriteString(a.ref)
		}
		sb.WriteByte(')')
		expr := sb.String()
		if len(x.args) <= 2 && len(expr) < 60 {
			x.ref = expr
		} else {
			x.ref = fmt.Sprintf("t!%d", x.id)
			tt.pending = append(tt.pending, fmt.Sprintf("(define-fun %s () %s %s)", x.ref, x.sort, expr))
		}
		stack = stack[:len(stack)-1]
	}
	return t.ref
}

func (tt *TermTable) declare(t *Term) {
	if t.isDef {
		return
	}
	t.isDef = true
	t.ref = smtName(t.name)
	tt.pending = append(tt.pending, fmt.Sprintf("(declare-const %s %s)", t.ref, t.sort))
	if t.sort.K == SSeq {
		// link the byte view (if any) to the sequence view
		for i, b := range tt.byteVars[t] {
			tt.declare(b)
			tt.pending = append(tt.pending, fmt.Sprintf("(assert (= %s (seq.nth %s %d)))", b.ref, t.ref, i))
		}
	}
}

func (t *Term) Declared() bool { return t.isDef }

func (tt *TermTable) TakePending() []string {
	p := tt.pending
	tt.pending = nil
	return p
}

var _ = bits.Len
