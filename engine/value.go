package main

import (
	"fmt"
	"go/types"
	"strings"

	"golang.org/x/tools/go/ssa"
)

// Value is one of:
//   bool, Int, float64            concrete scalars
//   *Term                         symbolic Bool / BV scalar
//   Str                           string (concrete or symbolic pieces)
//   *Value                        pointer (nil pointer = (*Value)(nil))
//   Struct, Array                 aggregates (copied on load/store)
//   Slice, SymBytes               slices
//   *Map                          map (nil map = (*Map)(nil))
//   Iface, *SymIface              interfaces
//   *ssa.Function, *ssa.Builtin, *Closure, *NativeFunc   function values
//   Tuple                         multi-value
//   *Obj                          opaque environment object
//   *Chan                         channel (only ctx.Done())
type Value interface{}

type Int uint64 // canonical: sign-extended (signed types) or zero-extended (unsigned)

type Struct []Value
type Array []Value
type Tuple []Value

type Slice struct {
	arr    *[]Value // nil for nil slice
	off    int
	n      int   // concrete length (ignored if symLen != nil)
	symLen *Term // BV64 symbolic length (lazy input slices only), bounded by cp
	cp     int
}

// SymBytes is an immutable []byte view of a (possibly symbolic) byte string.
type SymBytes struct{ s Str }

type Iface struct {
	T types.Type // nil => nil interface
	V Value
}

// SymIface is the Value field of a symbolic wire node: its dynamic type is a
// function of the node's identifier, its payload a function of Data.
type SymIface struct{ node *SymNode }

type Closure struct {
	Fn  *ssa.Function
	Env []Value
}

type NativeFunc struct {
	Name string
	Fn   func(in *Interp, args []Value) Value
}

type Map struct {
	keys  []Value
	vals  []Value
	index map[interface{}]int
	live  []bool
	// hasSym: some live entry has a key that is not a concrete hashable value
	// (its identity with other keys is decided by the solver, see Interp.mapSet)
	hasSym bool
}

type Chan struct {
	ctx    *Obj
	closed bool
	id     int
	timer  *Obj // time.Timer / time.After channel: str "pending" | "fired" | "stopped" in timer.Kind2
	cp     int     // buffer capacity (make(chan T, n)); 0 = unbuffered
	queue  []Value // buffered elements
}

// Obj is an opaque environment object (net.Conn stub, listener, bufio, ctx, error, ...).
type Obj struct {
	Kind string
	id   int
	F    map[string]Value
	// typed helpers
	str   Str
	items []Value
	n     int
	obj   *Obj
	b     bool

	feed       []feedItem
	accepts    []feedItem
	items2     []writeRec
	framesRead int
}

func (o *Obj) String() string { return fmt.Sprintf("<%s#%d>", o.Kind, o.id) }

func NewMap() *Map { return &Map{index: map[interface{}]int{}} }

// hashKey returns a Go-hashable key for concrete map keys; ok=false if symbolic.
func hashKey(v Value) (interface{}, bool) {
	switch x := v.(type) {
	case bool, Int, float64:
		return x, true
	case Str:
		if c, ok := x.Concrete(); ok {
			return "s:" + c, true
		}
		return nil, false
	case *Value:
		return x, true
	case Iface:
		if x.T == nil {
			return "nil-iface", true
		}
		k, ok := hashKey(x.V)
		if !ok {
			return nil, false
		}
		return fmt.Sprintf("%s|%v", x.T.String(), k), true
	case *Obj:
		return x, true
	case Struct:
		var parts []string
		for _, f := range x {
			k, ok := hashKey(f)
			if !ok {
				return nil, false
			}
			parts = append(parts, fmt.Sprint(k))
		}
		return "st:" + strings.Join(parts, ","), true
	}
	return nil, false
}

func (m *Map) Get(k Value) (Value, bool, bool) {
	hk, ok := hashKey(k)
	if !ok || m.hasSym {
		return nil, false, false
	}
	if i, ok := m.index[hk]; ok && m.live[i] {
		return m.vals[i], true, true
	}
	return nil, false, true
}

func (m *Map) Set(k, v Value) bool {
	hk, ok := hashKey(k)
	if !ok || m.hasSym {
		return false
	}
	if i, ok := m.index[hk]; ok && m.live[i] {
		m.vals[i] = v
		return true
	}
	m.index[hk] = len(m.keys)
	m.keys = append(m.keys, k)
	m.vals = append(m.vals, v)
	m.live = append(m.live, true)
	return true
}

func (m *Map) Delete(k Value) bool {
	hk, ok := hashKey(k)
	if !ok || m.hasSym {
		return false
	}
	if i, ok := m.index[hk]; ok {
		m.live[i] = false
		delete(m.index, hk)
	}
	return true
}

func (m *Map) Len() int {
	n := 0
	for _, l := range m.live {
		if l {
			n++
		}
	}
	return n
}

// ---------------- strings ----------------

type pieceKind int

const (
	pkBytes pieceKind = iota // concrete bytes
	pkUnit                   // one symbolic byte (BV8 term)
	pkAtom                   // symbolic sequence with BV64 length term
)

type piece struct {
	k pieceKind
	b string // pkBytes
	t *Term  // pkUnit: BV8 ; pkAtom: Seq
	n *Term  // pkAtom: BV64 length
}

type Str struct{ p []piece }

func CStr(s string) Str {
	if s == "" {
		return Str{}
	}
	return Str{p: []piece{{k: pkBytes, b: s}}}
}

func (s Str) Concrete() (string, bool) {
	switch len(s.p) {
	case 0:
		return "", true
	case 1:
		if s.p[0].k == pkBytes {
			return s.p[0].b, true
		}
	}
	return "", false
}

func (s Str) IsConcrete() bool { _, ok := s.Concrete(); return ok }

// ConcreteLen reports the length if it does not depend on an atom.
func (s Str) ConcreteLen() (int, bool) {
	n := 0
	for _, p := range s.p {
		switch p.k {
		case pkBytes:
			n += len(p.b)
		case pkUnit:
			n++
		default:
			return 0, false
		}
	}
	return n, true
}

func concatStr(a, b Str) Str {
	if len(a.p) == 0 {
		return b
	}
	if len(b.p) == 0 {
		return a
	}
	out := make([]piece, 0, len(a.p)+len(b.p))
	out = append(out, a.p...)
	for _, p := range b.p {
		if p.k == pkBytes && len(out) > 0 && out[len(out)-1].k == pkBytes {
			out[len(out)-1] = piece{k: pkBytes, b: out[len(out)-1].b + p.b}
		} else {
			out = append(out, p)
		}
	}
	return Str{p: out}
}

func (s Str) key() string {
	var sb strings.Builder
	for _, p := range s.p {
		switch p.k {
		case pkBytes:
			fmt.Fprintf(&sb, "b%x;", p.b)
		case pkUnit:
			fmt.Fprintf(&sb, "u%d;", p.t.id)
		case pkAtom:
			fmt.Fprintf(&sb, "a%d;", p.t.id)
		}
	}
	return sb.String()
}

// LenTerm returns the BV64 length.
func (s Str) LenTerm(tt *TermTable) *Term {
	c := 0
	var acc *Term
	for _, p := range s.p {
		switch p.k {
		case pkBytes:
			c += len(p.b)
		case pkUnit:
			c++
		case pkAtom:
			if acc == nil {
				acc = p.n
			} else {
				acc = tt.BVOp("bvadd", acc, p.n)
			}
		}
	}
	if acc == nil {
		return tt.BVConst(uint64(c), 64)
	}
	if c != 0 {
		acc = tt.BVOp("bvadd", acc, tt.BVConst(uint64(c), 64))
	}
	return acc
}

func (s Str) LenValue(tt *TermTable) Value {
	if n, ok := s.ConcreteLen(); ok {
		return Int(n)
	}
	return s.LenTerm(tt)
}

// SeqTerm returns the Seq term.
func (s Str) SeqTerm(tt *TermTable) *Term {
	var parts []*Term
	for _, p := range s.p {
		switch p.k {
		case pkBytes:
			for i := 0; i < len(p.b); i++ {
				parts = append(parts, tt.SeqUnit(tt.BVConst(uint64(p.b[i]), 8)))
			}
		case pkUnit:
			parts = append(parts, tt.SeqUnit(p.t))
		case pkAtom:
			parts = append(parts, p.t)
		}
	}
	return tt.SeqConcat(parts...)
}

// byteAt returns the i-th byte if it is addressable without crossing an atom.
func (s Str) byteAt(i int) (Value, bool) {
	for _, p := range s.p {
		switch p.k {
		case pkBytes:
			if i < len(p.b) {
				return Int(p.b[i]), true
			}
			i -= len(p.b)
		case pkUnit:
			if i == 0 {
				return p.t, true
			}
			i--
		default:
			return nil, false
		}
	}
	return nil, false
}

// sliceConcrete returns s[a:b] for concrete a,b when resolvable (b<0 => to end).
func (s Str) sliceFrom(a int) (Str, bool) {
	var out []piece
	for idx, p := range s.p {
		if a == 0 {
			out = append(out, s.p[idx:]...)
			return Str{p: out}, true
		}
		switch p.k {
		case pkBytes:
			if a < len(p.b) {
				out = append(out, piece{k: pkBytes, b: p.b[a:]})
				out = append(out, s.p[idx+1:]...)
				return Str{p: out}, true
			}
			a -= len(p.b)
		case pkUnit:
			a--
		default:
			return Str{}, false
		}
	}
	if a == 0 {
		return Str{}, true
	}
	return Str{}, false
}

func (s Str) prefix(b int) (Str, bool) {
	var out []piece
	for _, p := range s.p {
		if b == 0 {
			return Str{p: out}, true
		}
		switch p.k {
		case pkBytes:
			if b <= len(p.b) {
				out = append(out, piece{k: pkBytes, b: p.b[:b]})
				return Str{p: out}, true
			}
			out = append(out, p)
			b -= len(p.b)
		case pkUnit:
			out = append(out, p)
			b--
		default:
			return Str{}, false
		}
	}
	if b == 0 {
		return Str{p: out}, true
	}
	return Str{}, false
}

func (s Str) String() string {
	if c, ok := s.Concrete(); ok {
		return fmt.Sprintf("%q", c)
	}
	var parts []string
	for _, p := range s.p {
		switch p.k {
		case pkBytes:
			parts = append(parts, fmt.Sprintf("%q", p.b))
		case pkUnit:
			parts = append(parts, "<u:"+termString(p.t, 4)+">")
		case pkAtom:
			if p.t.op == "var" {
				parts = append(parts, "<"+p.t.name+">")
			} else {
				parts = append(parts, "<seq>")
			}
		}
	}
	return strings.Join(parts, "+")
}

// strFromValues builds a Str from byte values (Int or BV8 terms).
func strFromValues(vs []Value) Str {
	var out []piece
	var run []byte
	flush := func() {
		if len(run) > 0 {
			out = append(out, piece{k: pkBytes, b: string(run)})
			run = nil
		}
	}
	for _, v := range vs {
		switch x := v.(type) {
		case Int:
			run = append(run, byte(x))
		case *Term:
			flush()
			out = append(out, piece{k: pkUnit, t: x})
		default:
			panic(fmt.Sprintf("strFromValues: bad byte %T", v))
		}
	}
	flush()
	return Str{p: out}
}

// valuesOfStr explodes a concrete-length Str into byte values.
func valuesOfStr(s Str) ([]Value, bool) {
	var out []Value
	for _, p := range s.p {
		switch p.k {
		case pkBytes:
			for i := 0; i < len(p.b); i++ {
				out = append(out, Int(p.b[i]))
			}
		case pkUnit:
			out = append(out, p.t)
		default:
			return nil, false
		}
	}
	return out, true
}

func termString(t *Term, depth int) string {
	switch t.op {
	case "const":
		return t.lit()
	case "var":
		return t.name
	}
	if depth == 0 {
		return "..."
	}
	head := t.op
	if t.name != "" {
		head = t.name
	}
	parts := []string{head}
	for _, a := range t.args {
		parts = append(parts, termString(a, depth-1))
	}
	return "(" + strings.Join(parts, " ") + ")"
}
