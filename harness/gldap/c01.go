//go:build verif

package gldap

import (
	"context"
	"fmt"
	"strconv"

	ber "github.com/go-asn1-ber/asn1-ber"
	"github.com/go-ldap/ldap/v3"
)

func init() {
	vReg("H_C01_bind", H_C01_bind)
	vReg("H_C01_search", H_C01_search)
	vReg("H_C01_searchfilter", H_C01_searchfilter)
	vReg("H_C01_modify", H_C01_modify)
	vReg("H_C01_modify_long", H_C01_modify_long)
	vReg("H_C01_modify2", H_C01_modify2)
	vReg("H_C01_modify_pair", H_C01_modify_pair)
	vReg("H_C01_add", H_C01_add)
	vReg("H_C01_delete", H_C01_delete)
	vReg("H_C01_delete2", H_C01_delete2)
	vReg("H_C01_extended", H_C01_extended)
	vReg("H_C01_unbind", H_C01_unbind)
	vReg("H_C01_unsupported", H_C01_unsupported)
	vReg("H_C01_bindversion", H_C01_bindversion)
}

// ---------------------------------------------------------------------
// Reference client encoder (RFC 4511 / RFC 2696 / Behera & VChu drafts),
// written with the ber constructors only — no gldap code.

func refSeq() *ber.Packet {
	return ber.Encode(ber.ClassUniversal, ber.TypeConstructed, ber.TagSequence, nil, "")
}
func refSet() *ber.Packet {
	return ber.Encode(ber.ClassUniversal, ber.TypeConstructed, ber.TagSet, nil, "")
}
func refOctet(s string) *ber.Packet {
	return ber.NewString(ber.ClassUniversal, ber.TypePrimitive, ber.TagOctetString, s, "")
}
func refInt(v int64) *ber.Packet {
	return ber.NewInteger(ber.ClassUniversal, ber.TypePrimitive, ber.TagInteger, v, "")
}
func refEnum(v int64) *ber.Packet {
	return ber.NewInteger(ber.ClassUniversal, ber.TypePrimitive, ber.TagEnumerated, v, "")
}
func refBool(b bool) *ber.Packet {
	return ber.NewBoolean(ber.ClassUniversal, ber.TypePrimitive, ber.TagBoolean, b, "")
}
func refCtxPrim(tag ber.Tag, s string) *ber.Packet {
	p := ber.Encode(ber.ClassContext, ber.TypePrimitive, tag, nil, "")
	p.Data.Write([]byte(s))
	return p
}
func refApp(tag ber.Tag, kids ...*ber.Packet) *ber.Packet {
	p := ber.Encode(ber.ClassApplication, ber.TypeConstructed, tag, nil, "")
	for _, k := range kids {
		p.AppendChild(k)
	}
	return p
}

func refEnvelope(id int64, op *ber.Packet, controls []*ber.Packet) *ber.Packet {
	p := refSeq()
	p.AppendChild(refInt(id))
	p.AppendChild(op)
	if len(controls) > 0 {
		c := ber.Encode(ber.ClassContext, ber.TypeConstructed, 0, nil, "")
		for _, k := range controls {
			c.AppendChild(k)
		}
		p.AppendChild(c)
	}
	return p
}

// ctlSpec is the client-side description of one control.
type ctlSpec struct {
	kind     int // see refControl
	oid      string
	crit     bool
	hasValue bool
	value    string
	size     uint32
	cookie   string
	num      int64 // grace / expire / error / vchu expire
	trueOctet byte // content octet gldap wrote for criticality TRUE (response direction)
}

const (
	ckGeneric = iota
	ckGenericCritValue
	ckManageDsaIT
	ckPaging
	ckBeheraGrace
	ckBeheraExpire
	ckBeheraError
	ckVChuMustChange
	ckVChuWarning
	ckMSNotification
	ckMSShowDeleted
	ckMSServerLinkTTL
	ckKinds
)

func vCtlSpec(name string, kind int) ctlSpec {
	c := ctlSpec{kind: kind}
	switch kind {
	case ckGeneric:
		c.oid = vStr(name + ".oid")
		c.crit = vBool(name + ".crit")
		c.hasValue = vBool(name + ".hasValue")
		if c.hasValue {
			c.value = vStr(name + ".value")
		}
	case ckGenericCritValue:
		c.oid = vStr(name + ".oid")
		c.crit = true
		c.hasValue = true
		c.value = vStr(name + ".value")
	case ckManageDsaIT:
		c.oid = ControlTypeManageDsaIT
		c.crit = vBool(name + ".crit")
	case ckPaging:
		c.oid = ControlTypePaging
		c.size = vU32(name + ".size")
		c.cookie = vStr(name + ".cookie")
	case ckBeheraGrace, ckBeheraExpire:
		c.oid = ControlTypeBeheraPasswordPolicy
		c.num = vI64(name + ".num")
		vAssume(c.num >= 0 && c.num < 1<<31)
	case ckBeheraError:
		c.oid = ControlTypeBeheraPasswordPolicy
		c.num = vI64(name + ".num")
		vAssume(c.num >= 0 && c.num <= 8)
	case ckVChuMustChange:
		c.oid = ControlTypeVChuPasswordMustChange
	case ckVChuWarning:
		c.oid = ControlTypeVChuPasswordWarning
		c.num = vI64(name + ".num")
	case ckMSNotification:
		c.oid = ControlTypeMicrosoftNotification
	case ckMSShowDeleted:
		c.oid = ControlTypeMicrosoftShowDeleted
	case ckMSServerLinkTTL:
		c.oid = ControlTypeMicrosoftServerLinkTTL
	}
	return c
}

var vKnownOIDs = []string{ControlTypeManageDsaIT, ControlTypePaging, ControlTypeBeheraPasswordPolicy, ControlTypeVChuPasswordMustChange,
	ControlTypeVChuPasswordWarning, ControlTypeMicrosoftNotification, ControlTypeMicrosoftShowDeleted, ControlTypeMicrosoftServerLinkTTL}

// refControl is the RFC 4511 Control SEQUENCE for the spec.
func refControl(c ctlSpec) *ber.Packet {
	p := refSeq()
	p.AppendChild(refOctet(c.oid))
	switch c.kind {
	case ckGeneric, ckGenericCritValue, ckManageDsaIT:
		if c.crit {
			p.AppendChild(refBool(true))
		}
		if c.hasValue {
			p.AppendChild(refOctet(c.value))
		}
	case ckPaging:
		seq := refSeq()
		seq.AppendChild(refInt(int64(c.size)))
		seq.AppendChild(refOctet(c.cookie))
		p.AppendChild(refOctet(string(seq.Bytes())))
	case ckBeheraGrace, ckBeheraExpire:
		tag := ber.Tag(0) // timeBeforeExpiration
		if c.kind == ckBeheraGrace {
			tag = 1
		}
		warn := ber.Encode(ber.ClassContext, ber.TypeConstructed, 0, nil, "")
		warn.AppendChild(ber.NewInteger(ber.ClassContext, ber.TypePrimitive, tag, c.num, ""))
		seq := refSeq()
		seq.AppendChild(warn)
		p.AppendChild(refOctet(string(seq.Bytes())))
	case ckBeheraError:
		seq := refSeq()
		seq.AppendChild(ber.NewInteger(ber.ClassContext, ber.TypePrimitive, 1, c.num, ""))
		p.AppendChild(refOctet(string(seq.Bytes())))
	case ckVChuWarning:
		p.AppendChild(refOctet(strconv.FormatInt(c.num, 10)))
	}
	return p
}

// checkControl asserts that the decoded control equals the client's.
func checkControl(lbl string, got Control, c ctlSpec) {
	switch c.kind {
	case ckGeneric, ckGenericCritValue:
		g, ok := got.(*ControlString)
		vAssert(ok, lbl+": generic control decodes to ControlString")
		if ok {
			vAssert(g.ControlType == c.oid, lbl+": oid")
			vAssert(g.Criticality == c.crit, lbl+": criticality")
			vAssert(g.ControlValue == c.value, lbl+": value")
		}
	case ckManageDsaIT:
		g, ok := got.(*ControlManageDsaIT)
		vAssert(ok, lbl+": ManageDsaIT type")
		if ok {
			vAssert(g.Criticality == c.crit, lbl+": ManageDsaIT criticality")
		}
	case ckPaging:
		g, ok := got.(*ControlPaging)
		vAssert(ok, lbl+": Paging type")
		if ok {
			vAssert(g.PagingSize == c.size, lbl+": paging size")
			vAssert(string(g.Cookie) == c.cookie, lbl+": paging cookie")
		}
	case ckBeheraGrace:
		g, ok := got.(*ControlBeheraPasswordPolicy)
		vAssert(ok, lbl+": Behera type")
		if ok {
			vAssert(int64(g.Grace()) == c.num, lbl+": behera grace")
		}
	case ckBeheraExpire:
		g, ok := got.(*ControlBeheraPasswordPolicy)
		vAssert(ok, lbl+": Behera type")
		if ok {
			vAssert(int64(g.Expire()) == c.num, lbl+": behera expire")
		}
	case ckBeheraError:
		g, ok := got.(*ControlBeheraPasswordPolicy)
		vAssert(ok, lbl+": Behera type")
		if ok {
			e, _ := g.ErrorCode()
			vAssert(int64(e) == c.num, lbl+": behera error")
		}
	case ckVChuMustChange:
		g, ok := got.(*ControlVChuPasswordMustChange)
		vAssert(ok && g.MustChange, lbl+": VChu must-change type")
	case ckVChuWarning:
		g, ok := got.(*ControlVChuPasswordWarning)
		vAssert(ok, lbl+": VChu warning type")
		if ok {
			vAssert(g.Expire == c.num, lbl+": VChu warning expire")
		}
	case ckMSNotification:
		_, ok := got.(*ControlMicrosoftNotification)
		vAssert(ok, lbl+": MS notification type")
	case ckMSShowDeleted:
		_, ok := got.(*ControlMicrosoftShowDeleted)
		vAssert(ok, lbl+": MS show-deleted type")
	case ckMSServerLinkTTL:
		_, ok := got.(*ControlMicrosoftServerLinkTTL)
		vAssert(ok, lbl+": MS server-link-TTL type")
	}
}

// vControls picks 0..max controls of symbolic kinds.
func vControls(max int) []ctlSpec {
	n := vLen("nctl", max)
	var out []ctlSpec
	for i := 0; i < n; i++ {
		name := fmt.Sprintf("ctl%d", i)
		c := vCtlSpec(name, vLen(name+".kind", ckKinds-1))
		if c.kind == ckGeneric || c.kind == ckGenericCritValue {
			// "arbitrary other OIDs": not one of the typed controls, and non-empty
			for _, k := range vKnownOIDs {
				vAssume(c.oid != k)
			}
		}
		out = append(out, c)
	}
	return out
}

func refControls(cs []ctlSpec) []*ber.Packet {
	var out []*ber.Packet
	for _, c := range cs {
		out = append(out, refControl(c))
	}
	return out
}

func checkControls(got []Control, cs []ctlSpec) {
	vAssert(len(got) == len(cs), "number of controls")
	for i := range cs {
		if i < len(got) {
			checkControl(fmt.Sprintf("control %d", i), got[i], cs[i])
		}
	}
}

func vID() int64 {
	// C01 is about decoding: the client's length/integer octets are summarised
	// while the request is built (the decoder never looks at them)
	vSummarise("encodeInteger")
	vSummarise("encodeLength")
	id := vI64("msgid")
	vAssume(id >= 0 && id < 1<<31)
	return id
}

func vDecode(env *ber.Packet) (*Request, error) {
	return vDecodeW(vWire(env))
}

func vDecodeW(w *ber.Packet) (*Request, error) {
	return vDecodeWL(w, vBool("debugLogging"))
}

func vDecodeWL(w *ber.Packet, debug bool) (*Request, error) {
	vSummarise("-encodeLength")
	// through the connection's reader, as Run delivers it; with the logger at debug
	// level gldap pretty-prints the packet first, which must not change what is decoded
	nc := vNetConn("c")
	vConnFeed(nc, w)
	c, err := newConn(context.Background(), 1, nc, vLoggerAt(debug), vMux())
	if err != nil {
		return nil, err
	}
	return c.readRequest(1)
}

const vMaxCtl = 1

// ---------------------------------------------------------------------

func H_C01_bind() {
	id, dn, pw := vID(), vStr("dn"), vStr("pw")
	cs := vControls(vMaxCtl)
	env := refEnvelope(id, refApp(ApplicationBindRequest, refInt(3), refOctet(dn), refCtxPrim(0, pw)), refControls(cs))
	r, err := vDecode(env)
	vAssert(err == nil, "bind decodes")
	if err != nil {
		return
	}
	m, e2 := r.GetSimpleBindMessage()
	vAssert(e2 == nil, "bind kind")
	if e2 != nil {
		return
	}
	vAssert(m.GetID() == id, "bind message id")
	vAssert(m.UserName == dn, "bind dn")
	vAssert(string(m.Password) == pw, "bind password")
	vAssert(m.AuthChoice == SimpleAuthChoice, "bind auth choice")
	checkControls(m.Controls, cs)
	vReach("bind ok")
}

func H_C01_search() { vSearch(false) }

// the filter dimension on its own: no attributes, no controls
func H_C01_searchfilter() { vSearch(true) }

func vSearch(filterKinds bool) {
	id, base := vID(), vStr("base")
	scope, deref := vI64("scope"), vI64("deref")
	size, tl := vI64("size"), vI64("time")
	vAssume(scope >= 0 && scope <= 2 && deref >= 0 && deref <= 3)
	vAssume(size >= 0 && size < 1<<31 && tl >= 0 && tl < 1<<31)
	typesOnly := vBool("typesOnly")
	na := 0
	var cs []ctlSpec
	if !filterKinds {
		na = vLen("nattrs", 3)
		cs = vControls(vMaxCtl)
	}
	attrs := []string{vStr("a0"), vStr("a1"), vStr("a2")}[:na]
	as := refSeq()
	for _, a := range attrs {
		as.AppendChild(refOctet(a))
	}
	// the filter: a present filter, or an attribute-value assertion (=, >=, <=, ~=)
	// whose value is 1..2 arbitrary bytes (specials, NUL and bytes >= 0x80 included);
	// what the handler must see is go-ldap's text of exactly this filter
	var filter *ber.Packet
	fk := 0
	if filterKinds {
		fk = vLen("filterKind", 4)
	}
	if fk == 0 {
		filter = refCtxPrim(7, "objectClass")
	} else {
		b0, b1 := vU64("fv0"), vU64("fv1")
		vAssume(b0 < 256 && b1 < 256)
		val := string([]byte{byte(b0)})
		if vBool("fvTwoBytes") {
			val = string([]byte{byte(b0), byte(b1)})
		}
		tag := []ber.Tag{0, 3, 5, 6, 8}[fk]
		filter = ber.Encode(ber.ClassContext, ber.TypeConstructed, tag, nil, "")
		filter.AppendChild(refOctet("cn"))
		filter.AppendChild(refOctet(val))
	}
	op := refApp(ApplicationSearchRequest, refOctet(base), refEnum(scope), refEnum(deref), refInt(size), refInt(tl), refBool(typesOnly), filter, as)
	w := vWire(refEnvelope(id, op, refControls(cs)))
	wantFilter, ferr := ldap.DecompileFilter(w.Children[1].Children[6])
	vAssume(ferr == nil)
	r, err := vDecodeW(w)
	vAssert(err == nil, "search decodes")
	if err != nil {
		return
	}
	m, e2 := r.GetSearchMessage()
	vAssert(e2 == nil, "search kind")
	if e2 != nil {
		return
	}
	vAssert(m.GetID() == id, "search message id")
	vAssert(m.BaseDN == base, "search base dn")
	vAssert(int64(m.Scope) == scope, "search scope")
	vAssert(int64(m.DerefAliases) == deref, "search deref aliases")
	vAssert(m.SizeLimit == size, "search size limit")
	vAssert(m.TimeLimit == tl, "search time limit")
	vAssert(m.TypesOnly == typesOnly, "search types only")
	vAssert(m.Filter == wantFilter, "search filter is the decompiled filter child, unmodified")
	vAssert(len(m.Attributes) == na, "search attribute count")
	for i := range attrs {
		if i < len(m.Attributes) {
			vAssert(m.Attributes[i] == attrs[i], "search attribute value/order")
		}
	}
	checkControls(m.Controls, cs)
	vReach("search ok")
}

// vShort: strings short enough that every nested BER length stays in the
// one-octet class (the modify check runs the real length encoder and
// ConvertString on the values, so lengths are not summarised here).
func vShort(name string) string {
	s := vStr(name)
	vAssume(len(s) < 12)
	return s
}

func H_C01_modify()  { vModify(1, vMaxCtl) }
func H_C01_modify2() { vModify(2, 0) }

// one change with values of up to 299 bytes (length octets in the short, 0x81 and 0x82 forms)
func H_C01_modify_long() { vValBound = 300; vModify(1, 0) }

var vValBound = 12

func vVal(name string) string {
	s := vStr(name)
	vAssume(len(s) < vValBound)
	return s
}

func vModify(maxChanges, maxCtl int) {
	id, dn := vID(), vShort("dn")
	vSummarise("-encodeLength")
	nc := vLen("nchanges", maxChanges)
	type chg struct {
		op   int64
		typ  string
		vals []string
	}
	var changes []chg
	cseq := refSeq()
	for i := 0; i < nc; i++ {
		n := fmt.Sprintf("chg%d", i)
		c := chg{op: vI64(n + ".op"), typ: vShort(n + ".type")}
		vAssume(c.op >= 0 && c.op <= 3)
		maxVals := 2
		if vValBound > 12 {
			maxVals = 1 // long mode: one long value
		}
		nv := vLen(n+".nvals", maxVals)
		c.vals = []string{vVal(n + ".v0"), vVal(n + ".v1")}[:nv]
		changes = append(changes, c)
		set := refSet()
		for _, v := range c.vals {
			set.AppendChild(refOctet(v))
		}
		mod := refSeq()
		mod.AppendChild(refOctet(c.typ))
		mod.AppendChild(set)
		ch := refSeq()
		ch.AppendChild(refEnum(c.op))
		ch.AppendChild(mod)
		cseq.AppendChild(ch)
	}
	cs := vControls(maxCtl)
	r, err := vDecode(refEnvelope(id, refApp(ApplicationModifyRequest, refOctet(dn), cseq), refControls(cs)))
	vAssert(err == nil, "modify decodes")
	if err != nil {
		return
	}
	m, e2 := r.GetModifyMessage()
	vAssert(e2 == nil, "modify kind")
	if e2 != nil {
		return
	}
	vAssert(m.GetID() == id, "modify message id")
	vAssert(m.DN == dn, "modify dn")
	vAssert(len(m.Changes) == nc, "modify change count")
	for i, c := range changes {
		if i >= len(m.Changes) {
			break
		}
		g := m.Changes[i]
		vAssert(g.Operation == c.op, "modify operation")
		vAssert(g.Modification.Type == c.typ, "modify type")
		vAssert(len(g.Modification.Vals) == len(c.vals), "modify values: one element per client value")
		for j, v := range c.vals {
			if j >= len(g.Modification.Vals) {
				break
			}
			got := g.Modification.Vals[j]
			if got == v {
				continue // plain form
			}
			if vValBound > 12 {
				// long values: compared with the reference encoding of the OCTET STRING directly
				vAssert(got == rOctet(v), "modify value (plain or the BER encoding of the client's OCTET STRING)")
				continue
			}
			un, e := ConvertString(got)
			vAssert(e == nil && len(un) == 1 && un[0] == v, "modify value (plain or BER-wrapped)")
		}
	}
	checkControls(m.Controls, cs)
	vReach("modify ok")
}

// two Modify requests decoded one after the other (a pipeline: the first handler still
// holds its message while the second request is decoded): the first message keeps what
// its client sent
func H_C01_modify_pair() {
	mk := func(id int64, dn string, ops []int64, typs, vals []string) *ber.Packet {
		cseq := refSeq()
		for i := range ops {
			set := refSet()
			set.AppendChild(refOctet(vals[i]))
			mod := refSeq()
			mod.AppendChild(refOctet(typs[i]))
			mod.AppendChild(set)
			ch := refSeq()
			ch.AppendChild(refEnum(ops[i]))
			ch.AppendChild(mod)
			cseq.AppendChild(ch)
		}
		return refEnvelope(id, refApp(ApplicationModifyRequest, refOctet(dn), cseq), nil)
	}
	n1 := 1 + vLen("firstChanges", 1)
	ops := []int64{vI64("op0"), vI64("op1")}[:n1]
	typs := []string{vShort("type0"), vShort("type1")}[:n1]
	vals := []string{vVal("val0"), vVal("val1")}[:n1]
	for _, o := range ops {
		vAssume(o >= 0 && o <= 3)
	}
	dn := vShort("dn")
	r1, err := vDecodeWL(vWire(mk(1, dn, ops, typs, vals)), false)
	vAssume(err == nil)
	m1, err := r1.GetModifyMessage()
	vAssume(err == nil)
	n2 := 1 + vLen("secondChanges", 1)
	r2, err := vDecodeWL(vWire(mk(2, "cn=other", []int64{2, 1}[:n2], []string{"other0", "other1"}[:n2], []string{"x", "y"}[:n2])), false)
	vAssert(err == nil, "second modify decodes")
	if err == nil {
		m2, e2 := r2.GetModifyMessage()
		vAssert(e2 == nil && m2.DN == "cn=other" && len(m2.Changes) == n2, "second modify carries its own changes")
	}
	vAssert(m1.DN == dn && len(m1.Changes) == n1, "the first message keeps its DN and change count")
	for i := 0; i < n1 && i < len(m1.Changes); i++ {
		g := m1.Changes[i]
		vAssert(g.Operation == ops[i] && g.Modification.Type == typs[i] && len(g.Modification.Vals) == 1, "the first message keeps its operations and types while a later request is decoded")
		if len(g.Modification.Vals) == 1 && g.Modification.Vals[0] != vals[i] {
			un, e := ConvertString(g.Modification.Vals[0])
			vAssert(e == nil && len(un) == 1 && un[0] == vals[i], "the first message keeps its values")
		}
	}
	vReach("pair ok")
}

func H_C01_add() {
	id, dn := vID(), vStr("dn")
	na := vLen("nattrs", 2)
	type at struct {
		typ  string
		vals []string
	}
	var attrs []at
	aseq := refSeq()
	for i := 0; i < na; i++ {
		n := fmt.Sprintf("attr%d", i)
		a := at{typ: vStr(n + ".type")}
		nv := vLen(n+".nvals", 2)
		a.vals = []string{vStr(n + ".v0"), vStr(n + ".v1")}[:nv]
		attrs = append(attrs, a)
		set := refSet()
		for _, v := range a.vals {
			set.AppendChild(refOctet(v))
		}
		s := refSeq()
		s.AppendChild(refOctet(a.typ))
		s.AppendChild(set)
		aseq.AppendChild(s)
	}
	cs := vControls(vMaxCtl)
	r, err := vDecode(refEnvelope(id, refApp(ApplicationAddRequest, refOctet(dn), aseq), refControls(cs)))
	vAssert(err == nil, "add decodes")
	if err != nil {
		return
	}
	m, e2 := r.GetAddMessage()
	vAssert(e2 == nil, "add kind")
	if e2 != nil {
		return
	}
	vAssert(m.GetID() == id, "add message id")
	vAssert(m.DN == dn, "add dn")
	vAssert(len(m.Attributes) == na, "add attribute count")
	for i, a := range attrs {
		if i >= len(m.Attributes) {
			break
		}
		g := m.Attributes[i]
		vAssert(g.Type == a.typ, "add attribute type")
		vAssert(len(g.Vals) == len(a.vals), "add value count")
		for j, v := range a.vals {
			if j < len(g.Vals) {
				vAssert(g.Vals[j] == v, "add value")
			}
		}
	}
	checkControls(m.Controls, cs)
	vReach("add ok")
}

func vDeleteWith(maxCtl int) {
	id, dn := vID(), vStr("dn")
	cs := vControls(maxCtl)
	op := ber.Encode(ber.ClassApplication, ber.TypePrimitive, ApplicationDelRequest, nil, "")
	op.Data.Write([]byte(dn))
	r, err := vDecode(refEnvelope(id, op, refControls(cs)))
	vAssert(err == nil, "delete decodes")
	if err != nil {
		return
	}
	m, e2 := r.GetDeleteMessage()
	vAssert(e2 == nil, "delete kind")
	if e2 != nil {
		return
	}
	vAssert(m.GetID() == id, "delete message id")
	vAssert(m.DN == dn, "delete dn")
	checkControls(m.Controls, cs)
	vReach("delete ok")
}

func H_C01_delete()  { vDeleteWith(vMaxCtl) }
func H_C01_delete2() { vDeleteWith(2) } // every ordered pair of control kinds

func H_C01_extended() {
	id, name := vID(), vStr("name")
	r, err := vDecode(refEnvelope(id, refApp(ApplicationExtendedRequest, refCtxPrim(0, name)), nil))
	vAssert(err == nil, "extended decodes")
	if err != nil {
		return
	}
	m, ok := r.message.(*ExtendedOperationMessage)
	vAssert(ok, "extended kind")
	if !ok {
		return
	}
	vAssert(m.GetID() == id, "extended message id")
	vAssert(string(m.Name) == name, "extended name")
	vAssert(string(r.extendedName) == name, "request extended name")
	vReach("extended ok")
}

func H_C01_unbind() {
	id := vID()
	op := ber.Encode(ber.ClassApplication, ber.TypePrimitive, ApplicationUnbindRequest, nil, "")
	r, err := vDecode(refEnvelope(id, op, nil))
	vAssert(err == nil, "unbind decodes")
	if err != nil {
		return
	}
	m, e2 := r.GetUnbindMessage()
	vAssert(e2 == nil, "unbind kind")
	if e2 == nil {
		vAssert(m.GetID() == id, "unbind message id")
	}
	vAssert(r.routeOp == unbindRouteOperation, "unbind route operation")
	vReach("unbind ok")
}

// An unsupported protocolOp is never delivered as some request.
func H_C01_unsupported() {
	id := vID()
	tag := vU64("tag")
	// low-tag and high-tag-number forms (up to three tag octets)
	vAssume(tag < 1<<21)
	for _, t := range []uint64{ApplicationBindRequest, ApplicationUnbindRequest, ApplicationSearchRequest, ApplicationModifyRequest, ApplicationAddRequest, ApplicationDelRequest, ApplicationExtendedRequest} {
		vAssume(tag != t)
	}
	var op *ber.Packet
	if vBool("constructed") {
		op = ber.Encode(ber.ClassApplication, ber.TypeConstructed, ber.Tag(tag), nil, "")
		n := vLen("nkids", 3)
		for i := 0; i < n; i++ {
			op.AppendChild(vPacket(fmt.Sprintf("kid%d", i), 1, "def=2"))
		}
	} else {
		op = ber.Encode(ber.ClassApplication, ber.TypePrimitive, ber.Tag(tag), nil, "")
		op.Data.Write([]byte(vStr("content")))
	}
	// silent logger here: pretty-printing a packet with a symbolic tag forks per tag name
	r, err := vDecodeWL(vWire(refEnvelope(id, op, nil)), false)
	vAssert(err != nil && r == nil, "unsupported operation is rejected")
	vReach("unsupported checked")
}

// A Bind whose version is not 3 is never delivered.
func H_C01_bindversion() {
	id, ver := vID(), vI64("version")
	vAssume(ver != 3)
	env := refEnvelope(id, refApp(ApplicationBindRequest, refInt(ver), refOctet(vStr("dn")), refCtxPrim(0, vStr("pw"))), nil)
	r, err := vDecode(env)
	vAssert(err != nil && r == nil, "bind with version != 3 is rejected")
	vReach("version checked")
}
