//go:build verif

package gldap

import "context"

func init() {
	vReg("H_C02_readRequest", H_C02_readRequest)
	vReg("H_C02_readRequest_wide", H_C02_readRequest_wide)
	vReg("H_C02_readRequest_2ctl", H_C02_readRequest_2ctl)
	vReg("H_C02_readRequest_w3", H_C02_readRequest_w3)
}

const vC02Widths = "def=3;=4;1=9;2=1;2.*=4;1.1=2;1.7=3"

func vMux() *Mux {
	m, _ := NewMux()
	return m
}

const vC02WidthsWide = "def=3;=4;1=9;2=2;2.*=4;1.1=2;1.7=3"

func H_C02_readRequest_wide() { vC02(vC02WidthsWide) }

// the two increments of the wide variant separately (each explored to completion)
// two controls on a request whose operation node is narrow (2 children): what the second
// control adds is independent of the operation's own children
const vC02Widths2ctl = "def=2;=4;1=2;2=2;2.*=4"

func H_C02_readRequest_2ctl() { vC02(vC02Widths2ctl) }
func H_C02_readRequest_w3()   { vC02(vC02Widths) }     // one control, control values re-decoded at width 3

// Whatever well-framed tree the wire reader returns, reading and decoding a
// request never panics (recovery is not credited: any panic is a violation).
func H_C02_readRequest() { vC02(vC02Widths) }

func vC02(widths string) {
	nc := vNetConn("c")
	vConnFeed(nc, vPacket("frame", 5, widths))
	c, err := newConn(context.Background(), 1, nc, vLogger(), vMux())
	if err != nil {
		return
	}
	r, err := c.readRequest(1)
	vReach("returned")
	if err != nil {
		vEvent("err", err.Error())
	}
	if err == nil && r != nil {
		vReach("decoded")
	}
}

func init() { vReg("H_C02_truncated", H_C02_truncated) }

// A stream that ends before the first frame is complete (0..2 arbitrary bytes,
// then EOF): reading the request fails without panicking, whatever the bytes.
func H_C02_truncated() {
	nc := vNetConn("c")
	n := vLen("nbytes", 2)
	b0, b1 := vU64("b0"), vU64("b1")
	vAssume(b0 < 256 && b1 < 256)
	// two bytes form a complete (empty) element only if the second is a zero length
	vAssume(b1 != 0)
	raw := string([]byte{byte(b0), byte(b1)}[:n])
	vConnFeedRaw(nc, raw)
	c, err := newConn(context.Background(), 1, nc, vLoggerAt(vBool("debugLogging")), vMux())
	if err != nil {
		return
	}
	r, err := c.readRequest(1)
	vAssert(err != nil && r == nil, "a truncated stream is a read error, not a request")
	vReach("truncated")
}

func init() { vReg("H_C02_modify_deep", H_C02_modify_deep) }

// Modify requests one level deeper than the general tree (the values inside the SETs of a
// change's PartialAttribute are nodes too), with a narrow tree elsewhere: one change whose
// PartialAttribute has up to 3 children, each with up to 2 children.
func H_C02_modify_deep() {
	nc := vNetConn("c")
	vConnFeed(nc, vPacket("frame", 6, "def=2;=2;1=2;1.1=1;1.1.0=2;1.1.0.1=3"))
	c, err := newConn(context.Background(), 1, nc, vLogger(), vMux())
	if err != nil {
		return
	}
	r, err := c.readRequest(1)
	vReach("returned")
	if err == nil && r != nil {
		vReach("decoded")
	}
}

func init() { vReg("H_C02_deepnest", H_C02_deepnest) }

// Deeply nested frames (concrete): 33, 64 and 200 nested SEQUENCEs around an empty one, read
// with a silent and with a debug-level logger (which pretty-prints the frame, indenting per
// level): an error or a request, never a panic.
func H_C02_deepnest() {
	depth := []int{33, 64, 200}[vLen("depth", 2)]
	p := refSeq()
	for i := 0; i < depth; i++ {
		outer := refSeq()
		outer.AppendChild(p)
		p = outer
	}
	nc := vNetConn("c")
	vConnFeed(nc, vWire(p))
	c, err := newConn(context.Background(), 1, nc, vLoggerAt(vBool("debugLogging")), vMux())
	if err != nil {
		return
	}
	r, err := c.readRequest(1)
	vAssert(err != nil && r == nil, "a frame that is not an LDAPMessage is refused")
	vReach("deep")
}
