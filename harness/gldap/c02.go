//go:build verif

package gldap

import "context"

func init() {
	vReg("H_C02_readRequest", H_C02_readRequest)
	vReg("H_C02_readRequest_wide", H_C02_readRequest_wide)
}

const vC02Widths = "def=3;=4;1=9;2=1;2.*=4;1.1=2;1.7=3"

func vMux() *Mux {
	m, _ := NewMux()
	return m
}

const vC02WidthsWide = "def=3;=4;1=9;2=2;2.*=4;1.1=2;1.7=3"

func H_C02_readRequest_wide() { vC02(vC02WidthsWide) }

// Whatever well-framed tree the wire reader returns, reading and decoding a
// request never panics (recovery is not credited: any panic is a violation).
func H_C02_readRequest() { vC02(vC02Widths) }

func vC02(widths string) {
	nc := vNetConn("c")
	vConnFeed(nc, vPacket("frame", 5, widths))
	c, err := newConn(context.Background(), 1, nc, vLogger(), vMux())
	if err != nil {
		return
	}
	r, err := c.readRequest(1)
	vReach("returned")
	if err != nil {
		vEvent("err", err.Error())
	}
	if err == nil && r != nil {
		vReach("decoded")
	}
}
