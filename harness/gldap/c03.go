//go:build verif

package gldap

import (
	"context"
	"fmt"
	"sync"

	ber "github.com/go-asn1-ber/asn1-ber"
	"github.com/go-ldap/ldap/v3"
)

func init() {
	vReg("H_C03_dispatch", H_C03_dispatch)
	vReg("H_C03_dispatch3", H_C03_dispatch3)
	vReg("H_C03_pairing", H_C03_pairing)
}

const (
	rkBind = iota
	rkSearch
	rkExtended
	rkModify
	rkAdd
	rkDelete
	rkKinds
)

type rtSpec struct {
	kind   int
	base   string
	filter string
	scope  int64
	exname string
}

// vAscii2: a one-character ASCII string (together with "no criterion" this
// gives empty / equal / case-variant / different)
func vAscii2(name string) string {
	s := vStr(name)
	vAssume(len(s) == 1)
	vAssume(s[0] < 0x80)
	return s
}

// vAscii01: the empty string or one ASCII character (a search of the root DSE has an empty base DN)
func vAscii01(name string) string {
	s := vStr(name)
	vAssume(len(s) <= 1)
	if len(s) == 1 {
		vAssume(s[0] < 0x80)
	}
	return s
}

// reference case-insensitive comparison: ASCII folding (vFoldEq is
// implemented independently of strings.EqualFold on the native side)
func refFold(a, b string) bool { return vFoldEq(a, b) }

func refMatch(rt rtSpec, kind int, base, filter string, scope int64, exname string) bool {
	if rt.kind != kind {
		return false
	}
	switch rt.kind {
	case rkSearch:
		if rt.base != "" && !refFold(base, rt.base) {
			return false
		}
		if rt.filter != "" && !refFold(filter, rt.filter) {
			return false
		}
		if rt.scope != 0 && rt.scope != scope {
			return false
		}
	case rkExtended:
		return rt.exname == exname
	}
	return true
}

func vDispatch(maxRoutes int) {
	m := vMux()
	var calls []int
	h := func(i int) HandlerFunc {
		return func(w *ResponseWriter, r *Request) { calls = append(calls, i) }
	}
	k := vLen("nroutes", maxRoutes)
	var table []rtSpec
	for i := 0; i < k; i++ {
		n := fmt.Sprintf("rt%d", i)
		rt := rtSpec{kind: vLen(n+".kind", rkKinds-1)}
		var err error
		switch rt.kind {
		case rkBind:
			err = m.Bind(h(i))
		case rkSearch:
			var opts []Option
			if vBool(n + ".hasBase") {
				rt.base = vAscii2(n + ".base")
				opts = append(opts, WithBaseDN(rt.base))
			}
			if vBool(n + ".hasFilter") {
				rt.filter = vAscii2(n + ".filter")
				opts = append(opts, WithFilter(rt.filter))
			}
			if vBool(n + ".hasScope") {
				rt.scope = vI64(n + ".scope")
				opts = append(opts, WithScope(Scope(rt.scope)))
			}
			err = m.Search(h(i), opts...)
		case rkExtended:
			rt.exname = vAscii2(n + ".exname")
			err = m.ExtendedOperation(h(i), ExtendedOperationName(rt.exname))
		case rkModify:
			err = m.Modify(h(i))
		case rkAdd:
			err = m.Add(h(i))
		case rkDelete:
			err = m.Delete(h(i))
		}
		vAssert(err == nil, "route registered")
		table = append(table, rt)
	}
	// default route, possibly re-registered: the last registration wins
	ndef := vLen("ndefault", 2)
	for d := 0; d < ndef; d++ {
		vAssert(m.DefaultRoute(h(100+d)) == nil, "default route registered")
	}
	if vBool("unbindRoute") {
		vAssert(m.Unbind(h(200)) == nil, "unbind route registered")
	}

	// the request: produced by the real decoder from a minimal well-formed message
	id := vID()
	kind := vLen("req.kind", rkKinds-1)
	base, filter, exname := "", "", ""
	scope := int64(0)
	var op *ber.Packet
	switch kind {
	case rkBind:
		op = refApp(ApplicationBindRequest, refInt(3), refOctet("cn=u"), refCtxPrim(0, "pw"))
	case rkSearch:
		base = vAscii01("req.base")
		scope = vI64("req.scope")
		vAssume(scope >= 0 && scope <= 2)
		op = refApp(ApplicationSearchRequest, refOctet(base), refEnum(scope), refEnum(0), refInt(0), refInt(0), refBool(false), refCtxPrim(7, "objectClass"), refSeq())
	case rkExtended:
		exname = vAscii2("req.exname")
		// StartTLS / unknown names are ordinary extended requests for the mux
		op = refApp(ApplicationExtendedRequest, refCtxPrim(0, exname))
	case rkModify:
		op = refApp(ApplicationModifyRequest, refOctet("cn=u"), refSeq())
	case rkAdd:
		op = refApp(ApplicationAddRequest, refOctet("cn=u"), refSeq())
	case rkDelete:
		op = ber.Encode(ber.ClassApplication, ber.TypePrimitive, ApplicationDelRequest, nil, "")
		op.Data.Write([]byte("cn=u"))
	}
	nc := vNetConn("c")
	c, err := newConn(context.Background(), 1, nc, vLogger(), m)
	vAssume(err == nil)
	wire := vWire(refEnvelope(id, op, nil))
	if kind == rkSearch {
		_, ferr := ldap.DecompileFilter(wire.Children[1].Children[6])
		vAssume(ferr == nil) // the filter is well formed; its text is go-ldap's
	}
	req, err := newRequest(1, c, &packet{Packet: wire})
	vAssert(err == nil && req != nil, "request decodes")
	if err != nil || req == nil {
		return
	}
	if kind == rkSearch {
		// the filter text is go-ldap's; any ASCII text over the alphabet
		filter = vAscii2("req.filter")
		req.message.(*SearchMessage).Filter = filter
	}
	w, err := newResponseWriter(c.writer, &c.writerMu, c.logger, int(c.connID), 1)
	vAssume(err == nil)

	m.serve(w, req)

	expected := -1
	for i, rt := range table {
		if refMatch(rt, kind, base, filter, scope, exname) {
			expected = i
			break
		}
	}
	if expected < 0 && ndef > 0 {
		expected = 100 + ndef - 1
	}
	if expected >= 0 {
		vAssert(len(calls) == 1, "exactly one handler runs")
		if len(calls) >= 1 {
			vAssert(calls[0] == expected, "the first matching route (else the default route) handles the request")
		}
		vAssert(vConnWrites(nc) == 0, "gldap writes nothing itself when a handler exists")
	} else {
		vAssert(len(calls) == 0, "no handler runs when nothing matches")
		vAssert(vConnWrites(nc) == 1, "gldap answers exactly once itself")
		p := ber.DecodePacket(vConnWritten(nc))
		vAssert(p != nil && len(p.Children) >= 2, "refusal is a well-formed LDAPMessage")
		if p != nil && len(p.Children) >= 2 {
			gotID, ok := p.Children[0].Value.(int64)
			vAssert(ok && gotID == id, "refusal carries the request's message ID")
			wantTag := map[int]ber.Tag{rkBind: ApplicationBindResponse, rkSearch: ApplicationSearchResultDone, rkExtended: ApplicationExtendedResponse,
				rkModify: ApplicationModifyResponse, rkAdd: ApplicationAddResponse, rkDelete: ApplicationDelResponse}[kind]
			vAssert(p.Children[1].ClassType == ber.ClassApplication && p.Children[1].Tag == wantTag, "refusal has the response type of the request's operation")
			if len(p.Children[1].Children) >= 1 {
				code, ok := p.Children[1].Children[0].Value.(int64)
				vAssert(ok && code == ResultUnwillingToPerform, "refusal is unwillingToPerform")
			}
		}
	}
	vReach("served")
}

func H_C03_dispatch()  { vDispatch(2) }
func H_C03_dispatch3() { vDispatch(3) }

// serveRequests hands every non-Unbind request to serve exactly once with its own (w, r) pair.
func H_C03_pairing() {
	if vBool("lateSchedule") {
		vLateSched() // handlers start only when the read loop blocks or ends
	}
	m := vMux()
	type seen struct{ wid, rid int; mid int64 }
	var got []seen
	var mu sync.Mutex
	hf := func(w *ResponseWriter, r *Request) {
		mu.Lock()
		defer mu.Unlock()
		got = append(got, seen{w.requestID, r.ID, r.message.GetID()})
	}
	vAssume(m.Delete(hf) == nil && m.DefaultRoute(hf) == nil)
	nc := vNetConn("c")
	n := vLen("nreq", 3)
	ids := []int64{vI64("id0"), vI64("id1"), vI64("id2")}
	for i := 0; i < n; i++ {
		vAssume(ids[i] >= 0 && ids[i] < 1<<31)
		vSummarise("encodeInteger")
		var op *ber.Packet
		if vBool(fmt.Sprintf("isDelete%d", i)) {
			op = ber.Encode(ber.ClassApplication, ber.TypePrimitive, ApplicationDelRequest, nil, "")
			op.Data.Write([]byte("cn=u"))
		} else {
			op = refApp(ApplicationAddRequest, refOctet("cn=u"), refSeq())
		}
		vConnFeed(nc, vWire(refEnvelope(ids[i], op, nil)))
	}
	c, err := newConn(context.Background(), 1, nc, vLogger(), m)
	vAssume(err == nil)
	_ = c.serveRequests()
	c.requestsWg.Wait()
	vAssert(len(got) == n, "one serve call per request")
	used := map[int]bool{}
	for _, g := range got {
		vAssert(g.wid == g.rid, "writer and request belong together")
		vAssert(g.rid >= 1 && g.rid <= n && !used[g.rid], "each request served once")
		used[g.rid] = true
		if g.rid >= 1 && g.rid <= n {
			vAssert(g.mid == ids[g.rid-1], "request j carries the j-th frame's message ID")
		}
	}
	vReach("paired")
}

func init() { vReg("H_C03_sequence", H_C03_sequence) }

// Every request of a connection is routed on its own: two searches in a row on one
// connection, against two search routes (optional base / scope criteria) and an
// optional default route; each goes to the first route matching *it*, whatever the
// previous request was served by.
func H_C03_sequence() {
	m := vMux()
	var calls []int
	h := func(i int) HandlerFunc {
		return func(w *ResponseWriter, r *Request) { calls = append(calls, i) }
	}
	var table []rtSpec
	for i := 0; i < 2; i++ {
		n := fmt.Sprintf("rt%d", i)
		rt := rtSpec{kind: rkSearch}
		var opts []Option
		if vBool(n + ".hasBase") {
			rt.base = vAscii2(n + ".base")
			opts = append(opts, WithBaseDN(rt.base))
		}
		if vBool(n + ".hasScope") {
			rt.scope = vI64(n + ".scope")
			opts = append(opts, WithScope(Scope(rt.scope)))
		}
		vAssert(m.Search(h(i), opts...) == nil, "route registered")
		table = append(table, rt)
	}
	hasDefault := vBool("defaultRoute")
	if hasDefault {
		vAssert(m.DefaultRoute(h(100)) == nil, "default route registered")
	}
	nc := vNetConn("c")
	c, err := newConn(context.Background(), 1, nc, vLogger(), m)
	vAssume(err == nil)
	vSummarise("encodeInteger")
	for k := 0; k < 2; k++ {
		n := fmt.Sprintf("req%d", k)
		base := vAscii2(n + ".base")
		scope := vI64(n + ".scope")
		vAssume(scope >= 0 && scope <= 2)
		op := refApp(ApplicationSearchRequest, refOctet(base), refEnum(scope), refEnum(0), refInt(0), refInt(0), refBool(false), refCtxPrim(7, "objectClass"), refSeq())
		req, err := newRequest(k+1, c, &packet{Packet: vWire(refEnvelope(int64(k+1), op, nil))})
		vAssume(err == nil && req != nil)
		w, err := newResponseWriter(c.writer, &c.writerMu, c.logger, int(c.connID), k+1)
		vAssume(err == nil)
		before := len(calls)
		m.serve(w, req)
		expected := -1
		for i, rt := range table {
			if refMatch(rt, rkSearch, base, "", scope, "") {
				expected = i
				break
			}
		}
		if expected < 0 && hasDefault {
			expected = 100
		}
		if expected >= 0 {
			vAssert(len(calls) == before+1, "exactly one handler runs per request")
			if len(calls) == before+1 {
				vAssert(calls[before] == expected, "each request goes to the first route that matches it (else the default route)")
			}
		} else {
			vAssert(len(calls) == before, "no handler runs when nothing matches")
		}
	}
	vReach("sequence served")
}

func init() { vReg("H_C03_manyroutes", H_C03_manyroutes) }

// A larger route table with interleaved operations (16 routes): several search routes
// match the request; the one registered first must serve it, whatever internal
// organisation the mux uses (sorting, grouping, indexing).
func H_C03_manyroutes() {
	m := vMux()
	var calls []int
	h := func(i int) HandlerFunc {
		return func(w *ResponseWriter, r *Request) { calls = append(calls, i) }
	}
	which := vLen("requestBase", 2) // the request's base DN: "a", "b" or "c"
	bases := []string{"a", "b", "c"}
	firstMatch := -1
	for i := 0; i < 16; i++ {
		var err error
		switch i % 4 {
		case 0:
			// search routes for base a, b, c, a (the last one shadowed by the first)
			b := bases[(i/4)%3]
			err = m.Search(h(i), WithBaseDN(b))
			if b == bases[which] && firstMatch < 0 {
				firstMatch = i
			}
		case 1:
			err = m.Add(h(i))
		case 2:
			if i == 14 {
				err = m.Search(h(i)) // a catch-all search route near the end
				if firstMatch < 0 {
					firstMatch = i
				}
			} else {
				err = m.Modify(h(i))
			}
		case 3:
			err = m.Delete(h(i))
		}
		vAssert(err == nil, "route registered")
	}
	nc := vNetConn("c")
	c, err := newConn(context.Background(), 1, nc, vLogger(), m)
	vAssume(err == nil)
	vSummarise("encodeInteger")
	op := refApp(ApplicationSearchRequest, refOctet(bases[which]), refEnum(2), refEnum(0), refInt(0), refInt(0), refBool(false), refCtxPrim(7, "objectClass"), refSeq())
	req, err := newRequest(1, c, &packet{Packet: vWire(refEnvelope(1, op, nil))})
	vAssume(err == nil && req != nil)
	w, err := newResponseWriter(c.writer, &c.writerMu, c.logger, int(c.connID), 1)
	vAssume(err == nil)
	m.serve(w, req)
	vAssert(len(calls) == 1, "exactly one handler runs")
	if len(calls) == 1 {
		vAssert(calls[0] == firstMatch, "the first matching route in registration order serves the request (16 routes)")
	}
	vReach("many routes served")
}
