//go:build verif

package gldap

import (
	"context"
	"fmt"
	"strconv"

	ber "github.com/go-asn1-ber/asn1-ber"
)

func init() {
	vReg("H_C04_general", H_C04_general)
	vReg("H_C04_bind", H_C04_bind)
	vReg("H_C04_searchdone", H_C04_searchdone)
	vReg("H_C04_extended", H_C04_extended)
	vReg("H_C04_modify", H_C04_modify)
	vReg("H_C04_entry", H_C04_entry)
	vReg("H_C04_two", H_C04_two)
	vReg("H_C04_lemma_int", H_C04_lemma_int)
	vReg("H_C04_lemma_len", H_C04_lemma_len)
	vReg("H_C14_encode", H_C14_encode)
	vReg("H_C14_roundtrip", H_C14_roundtrip)
	vReg("H_C14_order", H_C14_order)
	vReg("H_C14_behera_ctor", H_C14_behera_ctor)
}

// ---------------------------------------------------------------------
// Independent reference encoder: minimal-length definite-form BER over
// strings (X.690 §8.1), no asn1-ber code.

func rLen(n int) string {
	switch {
	case n < 0x80:
		return string([]byte{byte(n)})
	case n < 0x100:
		return string([]byte{0x81, byte(n)})
	case n < 0x10000:
		return string([]byte{0x82, byte(n >> 8), byte(n)})
	case n < 0x1000000:
		return string([]byte{0x83, byte(n >> 16), byte(n >> 8), byte(n)})
	default:
		return string([]byte{0x84, byte(n >> 24), byte(n >> 16), byte(n >> 8), byte(n)})
	}
}

func rTLV(id byte, content string) string {
	return string([]byte{id}) + rLen(len(content)) + content
}

// rIntContent: shortest two's complement, big endian.
func rIntContent(v int64) string {
	switch {
	case v >= -0x80 && v < 0x80:
		return string([]byte{byte(v)})
	case v >= -0x8000 && v < 0x8000:
		return string([]byte{byte(v >> 8), byte(v)})
	case v >= -0x800000 && v < 0x800000:
		return string([]byte{byte(v >> 16), byte(v >> 8), byte(v)})
	case v >= -0x80000000 && v < 0x80000000:
		return string([]byte{byte(v >> 24), byte(v >> 16), byte(v >> 8), byte(v)})
	case v >= -0x8000000000 && v < 0x8000000000:
		return string([]byte{byte(v >> 32), byte(v >> 24), byte(v >> 16), byte(v >> 8), byte(v)})
	case v >= -0x800000000000 && v < 0x800000000000:
		return string([]byte{byte(v >> 40), byte(v >> 32), byte(v >> 24), byte(v >> 16), byte(v >> 8), byte(v)})
	case v >= -0x80000000000000 && v < 0x80000000000000:
		return string([]byte{byte(v >> 48), byte(v >> 40), byte(v >> 32), byte(v >> 24), byte(v >> 16), byte(v >> 8), byte(v)})
	default:
		return string([]byte{byte(v >> 56), byte(v >> 48), byte(v >> 40), byte(v >> 32), byte(v >> 24), byte(v >> 16), byte(v >> 8), byte(v)})
	}
}

func rInt(v int64) string    { return rTLV(0x02, rIntContent(v)) }
func rEnum(v int64) string   { return rTLV(0x0a, rIntContent(v)) }
func rOctet(s string) string { return rTLV(0x04, s) }
func rSeq(parts ...string) string {
	c := ""
	for _, p := range parts {
		c += p
	}
	return rTLV(0x30, c)
}
func rSet(parts ...string) string {
	c := ""
	for _, p := range parts {
		c += p
	}
	return rTLV(0x31, c)
}
func rApp(tag int, parts ...string) string {
	c := ""
	for _, p := range parts {
		c += p
	}
	return rTLV(byte(0x60|tag), c)
}

// BER: any non-zero content octet is TRUE.  The octet gldap actually wrote is
// taken over into the reference (vTrueOctet) after asserting it is non-zero, so
// 0x01 (asn1-ber's NewBoolean) and 0xFF (RFC 4511's canonical TRUE) both pass.
func rTrue(t byte) string { return string([]byte{0x01, 0x01, t}) }

// vLearnTrue returns the content octet of the criticality BOOLEAN of an encoded control (0x01 if none).
func vLearnTrue(ctl *ber.Packet) byte {
	if ctl == nil || len(ctl.Children) < 2 {
		return 0x01
	}
	b := ctl.Children[1]
	if b.ClassType == ber.ClassUniversal && b.Tag == ber.TagBoolean && b.Data.Len() == 1 {
		t := b.Data.Bytes()[0]
		vAssert(t != 0, "criticality TRUE is encoded as a non-zero octet")
		return t
	}
	return 0x01
}

// rControl is the encoding an LDAP client (go-ldap's DecodeControl) expects.
func rControl(c ctlSpec) string {
	parts := []string{rOctet(c.oid)}
	switch c.kind {
	case ckGeneric, ckGenericCritValue, ckManageDsaIT:
		if c.crit {
			parts = append(parts, rTrue(c.trueOctet))
		}
		if c.hasValue && c.value != "" {
			parts = append(parts, rOctet(c.value))
		}
	case ckPaging:
		parts = append(parts, rOctet(rSeq(rInt(int64(c.size)), rOctet(c.cookie))))
	case ckBeheraGrace:
		parts = append(parts, rOctet(rSeq(rTLV(0xa0, rTLV(0x81, rIntContent(c.num))))))
	case ckBeheraExpire:
		parts = append(parts, rOctet(rSeq(rTLV(0xa0, rTLV(0x80, rIntContent(c.num))))))
	case ckBeheraError:
		parts = append(parts, rOctet(rSeq(rTLV(0x81, rIntContent(c.num)))))
	case ckVChuWarning:
		parts = append(parts, rOctet(strconv.FormatInt(c.num, 10)))
	}
	return rSeq(parts...)
}

func rControls(cs []ctlSpec) string {
	if len(cs) == 0 {
		return ""
	}
	c := ""
	for _, k := range cs {
		c += rControl(k)
	}
	return rTLV(0xa0, c)
}

func rResult(id int64, app int, code int64, matched, diag string, cs []ctlSpec) string {
	return rSeq(rInt(id), rApp(app, rEnum(code), rOctet(matched), rOctet(diag)), rControls(cs))
}

// gControl builds the gldap control value for a spec through the public constructors.
func gControl(c ctlSpec) Control {
	switch c.kind {
	case ckGeneric, ckGenericCritValue:
		opts := []Option{WithCriticality(c.crit)}
		if c.hasValue {
			opts = append(opts, WithControlValue(c.value))
		}
		g, err := NewControlString(c.oid, opts...)
		vAssume(err == nil)
		return g
	case ckManageDsaIT:
		g, _ := NewControlManageDsaIT(WithCriticality(c.crit))
		return g
	case ckPaging:
		g, _ := NewControlPaging(c.size)
		g.SetCookie([]byte(c.cookie))
		return g
	case ckBeheraGrace:
		g, err := NewControlBeheraPasswordPolicy(WithGraceAuthNsRemaining(uint(c.num)))
		vAssume(err == nil)
		return g
	case ckBeheraExpire:
		g, err := NewControlBeheraPasswordPolicy(WithSecondsBeforeExpiration(uint(c.num)))
		vAssume(err == nil)
		return g
	case ckBeheraError:
		g, err := NewControlBeheraPasswordPolicy(WithErrorCode(uint(c.num)))
		vAssume(err == nil)
		return g
	case ckVChuMustChange:
		return &ControlVChuPasswordMustChange{MustChange: true}
	case ckVChuWarning:
		return &ControlVChuPasswordWarning{Expire: c.num}
	case ckMSNotification:
		g, _ := NewControlMicrosoftNotification()
		return g
	case ckMSShowDeleted:
		g, _ := NewControlMicrosoftShowDeleted()
		return g
	case ckMSServerLinkTTL:
		g, _ := NewControlMicrosoftServerLinkTTL()
		return g
	}
	return nil
}

// response-side control specs: generic OIDs are non-empty (constructor rule)
func vRespControls(max int) ([]ctlSpec, []Control) {
	n := vLen("nctl", max)
	var cs []ctlSpec
	var gs []Control
	for i := 0; i < n; i++ {
		name := fmt.Sprintf("ctl%d", i)
		c := vCtlSpec(name, vLen(name+".kind", ckKinds-1))
		if c.kind == ckGeneric || c.kind == ckGenericCritValue {
			vAssume(c.oid != "")
		}
		// the bound is on the symbolic strings only (the fixed OIDs of the typed controls are longer)
		if c.kind == ckGeneric || c.kind == ckGenericCritValue {
			vAssume(len(c.oid) < vStrBound)
		}
		vAssume(len(c.value) < vStrBound && len(c.cookie) < vStrBound)
		g := gControl(c)
		c.trueOctet = vLearnTrue(g.Encode())
		cs = append(cs, c)
		gs = append(gs, g)
	}
	return cs, gs
}

// ---------------------------------------------------------------------


func vRespSetup() (*Request, *ResponseWriter, func() string, int64) {
	id, rid := vI64("msgid"), vInt("reqid")
	vAssume(id >= 0 && id < 1<<31 && rid > 0 && rid < 1<<31)
	nc := vNetConn("c")
	c, err := newConn(context.Background(), 7, nc, vLogger(), vMux())
	vAssume(err == nil)
	r := &Request{ID: rid, conn: c, message: &SimpleBindMessage{baseMessage: baseMessage{id: id}}}
	w, err := newResponseWriter(c.writer, &c.writerMu, c.logger, int(c.connID), rid)
	vAssume(err == nil)
	return r, w, func() string { return string(vConnWritten(nc)) }, id
}

func vCode(name string) int {
	c := vInt(name)
	vAssume(c >= 0 && c <= 32767)
	return c
}

// strings stay below 2^16 in the quick harnesses (3 length classes each)
func vS(name string) string {
	s := vStr(name)
	vAssume(len(s) < vStrBound)
	return s
}

var vStrBound = 24

// common part: options + setters on a base response; returns intended values
type vIntent struct {
	code          int64
	matched, diag string
}

var vSetMax = 2

func vApplySetters(b *baseResponse, in *vIntent) {
	n := vLen("nset", vSetMax)
	for i := 0; i < n; i++ {
		switch vLen(fmt.Sprintf("set%d", i), 2) {
		case 0:
			c := vCode(fmt.Sprintf("setcode%d", i))
			b.SetResultCode(c)
			in.code = int64(c)
		case 1:
			s := vS(fmt.Sprintf("setdn%d", i))
			b.SetMatchedDN(s)
			in.matched = s
		case 2:
			s := vS(fmt.Sprintf("setmsg%d", i))
			b.SetDiagnosticMessage(s)
			in.diag = s
		}
	}
}

func H_C04_general() {
	r, w, sink, id := vRespSetup()
	var opts []Option
	in := vIntent{code: ResultUnwillingToPerform}
	app := int64(ApplicationExtendedResponse)
	if vBool("withCode") {
		c := vCode("code")
		opts = append(opts, WithResponseCode(c))
		in.code = int64(c)
	}
	if vBool("withApp") {
		a := vInt("app")
		vAssume(a >= 0 && a <= 30)
		opts = append(opts, WithApplicationCode(a))
		app = int64(a)
	}
	if vBool("withDiag") {
		in.diag = vS("diag")
		opts = append(opts, WithDiagnosticMessage(in.diag))
	}
	if vBool("withDN") {
		in.matched = vS("mdn")
		opts = append(opts, WithMatchedDN(in.matched))
	}
	resp := r.NewResponse(opts...)
	withDiag, withDN := vBool("withDiag"), vBool("withDN")
	if !withDiag {
		in.diag = resp.diagMessage // unset: whatever the response object holds
	}
	if !withDN {
		in.matched = resp.matchedDN
	}
	vApplySetters(resp.baseResponse, &in)
	vAssert(w.Write(resp) == nil, "write ok")
	want := rSeq(rInt(id), rTLV(byte(0x60|app), rEnum(in.code)+rOctet(in.matched)+rOctet(in.diag)))
	vAssert(sink() == want, "general response bytes == reference")
	vReach("written")
}

func H_C04_bind() {
	vSetMax = 1
	r, w, sink, id := vRespSetup()
	var opts []Option
	in := vIntent{}
	if vBool("withCode") {
		c := vCode("code")
		opts = append(opts, WithResponseCode(c))
		in.code = int64(c)
	}
	resp := r.NewBindResponse(opts...)
	vApplySetters(resp.baseResponse, &in)
	cs, gs := vRespControls(vRespMaxCtl)
	if len(gs) > 0 {
		resp.SetControls(gs...)
	}
	vAssert(w.Write(resp) == nil, "write ok")
	vAssert(sink() == rResult(id, ApplicationBindResponse, in.code, in.matched, in.diag, cs), "bind response bytes == reference")
	vReach("written")
}

var vRespMaxCtl = 1

func H_C04_searchdone() {
	vSetMax = 1
	r, w, sink, id := vRespSetup()
	var opts []Option
	in := vIntent{}
	if vBool("withCode") {
		c := vCode("code")
		opts = append(opts, WithResponseCode(c))
		in.code = int64(c)
	}
	resp := r.NewSearchDoneResponse(opts...)
	vApplySetters(resp.baseResponse, &in)
	cs, gs := vRespControls(vRespMaxCtl)
	if len(gs) > 0 {
		resp.SetControls(gs...)
	}
	vAssert(w.Write(resp) == nil, "write ok")
	vAssert(sink() == rResult(id, ApplicationSearchResultDone, in.code, in.matched, in.diag, cs), "search done bytes == reference")
	vReach("written")
}

func H_C04_extended() {
	r, w, sink, id := vRespSetup()
	var opts []Option
	in := vIntent{}
	if vBool("withCode") {
		c := vCode("code")
		opts = append(opts, WithResponseCode(c))
		in.code = int64(c)
	}
	resp := r.NewExtendedResponse(opts...)
	vApplySetters(resp.baseResponse, &in)
	vAssert(w.Write(resp) == nil, "write ok")
	vAssert(sink() == rResult(id, ApplicationExtendedResponse, in.code, in.matched, in.diag, nil), "extended response bytes == reference")
	vReach("written")
}

func H_C04_modify() {
	r, w, sink, id := vRespSetup()
	var opts []Option
	in := vIntent{code: ResultUnwillingToPerform}
	if vBool("withCode") {
		c := vCode("code")
		opts = append(opts, WithResponseCode(c))
		in.code = int64(c)
	}
	if vBool("withDiag") {
		in.diag = vS("diag")
		opts = append(opts, WithDiagnosticMessage(in.diag))
	}
	if vBool("withDN") {
		in.matched = vS("mdn")
		opts = append(opts, WithMatchedDN(in.matched))
	}
	resp := r.NewModifyResponse(opts...)
	if !vBool("withDiag") {
		in.diag = resp.diagMessage
	}
	if !vBool("withDN") {
		in.matched = resp.matchedDN
	}
	vApplySetters(resp.baseResponse, &in)
	vAssert(w.Write(resp) == nil, "write ok")
	vAssert(sink() == rResult(id, ApplicationModifyResponse, in.code, in.matched, in.diag, nil), "modify response bytes == reference")
	vReach("written")
}

func H_C04_entry() {
	r, w, sink, id := vRespSetup()
	dn := vS("edn")
	resp := r.NewSearchResponseEntry(dn)
	na := vLen("nattrs", 2)
	attrs := ""
	for i := 0; i < na; i++ {
		n := fmt.Sprintf("attr%d", i)
		name := vS(n + ".name")
		nv := vLen(n+".nvals", 2)
		vals := []string{vS(n + ".v0"), vS(n + ".v1")}[:nv]
		resp.AddAttribute(name, vals)
		vs := ""
		for _, v := range vals {
			vs += rOctet(v)
		}
		attrs += rSeq(rOctet(name), rTLV(0x31, vs))
	}
	vAssert(w.Write(resp) == nil, "write ok")
	want := rSeq(rInt(id), rApp(ApplicationSearchResultEntry, rOctet(dn), rTLV(0x30, attrs)))
	vAssert(sink() == want, "search entry bytes == reference")
	vReach("written")
}

// Lemma L-int: ParseInt64(encodeInteger(x)) == x for every int64, and the
// reference content octets agree with asn1-ber's (real SSA of both).
func H_C04_lemma_int() {
	x := vI64("x")
	p := ber.NewInteger(ber.ClassUniversal, ber.TypePrimitive, ber.TagInteger, x, "")
	b := p.Data.Bytes()
	y, err := ber.ParseInt64(b)
	vAssert(err == nil, "ParseInt64 accepts encodeInteger output")
	vAssert(y == x, "ParseInt64(encodeInteger(x)) == x")
	vAssert(string(b) == rIntContent(x), "encodeInteger == reference content octets")
	vReach("lemma")
}

// Lemma L-len: asn1-ber's length octets equal the reference for 0 <= n < 2^31.
func H_C04_lemma_len() {
	s := vStr("s")
	p := ber.NewString(ber.ClassUniversal, ber.TypePrimitive, ber.TagOctetString, s, "")
	vAssert(string(p.Bytes()) == rOctet(s), "NewString(s).Bytes() == reference TLV")
	vReach("lemma")
}

// ---------------------------------------------------------------------
// C14

// vCtlBounded: strings below 2^26 bytes (all five BER length classes occur;
// totals stay below 2^31, the reader's own packet limit)
func vCtlBounded(name string, kind int) ctlSpec {
	c := vCtlSpec(name, kind)
	vAssume(len(c.oid) < 1<<26 && len(c.value) < 1<<26 && len(c.cookie) < 1<<26)
	return c
}

// response direction: gldap's Encode() is what an LDAP client expects
func H_C14_encode() {
	c := vCtlBounded("ctl", vLen("kind", ckKinds-1))
	if c.kind == ckGeneric || c.kind == ckGenericCritValue {
		vAssume(c.oid != "")
	}
	g := gControl(c)
	c.trueOctet = vLearnTrue(g.Encode())
	vAssert(string(g.Encode().Bytes()) == rControl(c), "control encoding == reference")
	vAssert(g.GetControlType() == c.oid, "control type")
	vReach("encoded")
}

// gldap encode -> wire -> gldap decode is the identity on the fields
func H_C14_roundtrip() {
	c := vCtlBounded("ctl", vLen("kind", ckKinds-1))
	if c.kind == ckGeneric || c.kind == ckGenericCritValue {
		vAssume(c.oid != "")
		for _, k := range vKnownOIDs {
			vAssume(c.oid != k)
		}
		if c.hasValue {
			vAssume(c.value != "") // an empty value is not transmitted (ControlString.Encode)
		}
	}
	g := gControl(c)
	got, err := decodeControl(vWire(g.Encode()))
	vAssert(err == nil, "own encoding decodes")
	if err == nil {
		checkControl("roundtrip", got, c)
	}
	vReach("roundtrip")
}

// number and order of controls on one message
func H_C14_order() {
	cs, gs := vRespControls(2)
	p := vWire(encodeControls(gs))
	vAssert(len(p.Children) == len(cs), "control count preserved")
	want := ""
	for _, c := range cs {
		want += rControl(c)
	}
	vAssert(p.Data.String() == want, "controls encoded in order")
	vReach("order")
}

// constructor: never more than one of grace/expire/error; error codes > 8 rejected
func H_C14_behera_ctor() {
	var opts []Option
	hasG, hasE, hasC := vBool("hasGrace"), vBool("hasExpire"), vBool("hasError")
	g, e, c := uint(vU64("grace")), uint(vU64("expire")), uint(vU64("error"))
	vAssume(g < 1<<31 && e < 1<<31) // grace / expire 0..2^31-1 (property); error: every uint
	if hasG {
		opts = append(opts, WithGraceAuthNsRemaining(g))
	}
	if hasE {
		opts = append(opts, WithSecondsBeforeExpiration(e))
	}
	if hasC {
		opts = append(opts, WithErrorCode(c))
	}
	ctl, err := NewControlBeheraPasswordPolicy(opts...)
	if hasC && c > 8 {
		vAssert(err != nil, "error code above 8 is rejected")
	}
	if err == nil {
		n := 0
		if ctl.Grace() != -1 {
			n++
		}
		if ctl.Expire() != -1 {
			n++
		}
		if ec, _ := ctl.ErrorCode(); ec != -1 {
			n++
		}
		vAssert(n <= 1, "at most one of grace, expire, error is set")
		if hasC && !hasG && !hasE {
			ec, _ := ctl.ErrorCode()
			vAssert(ec >= 0 && ec <= 8 && uint(ec) == c, "accepted error code is the one given")
		}
	}
	vReach("ctor")
}

// Two responses created from the same request are independent: each arrives
// with the values set on it.
func H_C04_two() {
	r, w, sink, id := vRespSetup()
	c1, c2 := vCode("code1"), vCode("code2")
	d1, d2 := vS("diag1"), vS("diag2")
	m1, m2 := vS("dn1"), vS("dn2")
	var first, second Response
	var b1, b2 *baseResponse
	var app1, app2 int
	mk := func(kind int, code int) (Response, *baseResponse, int) {
		switch kind {
		case 0:
			x := r.NewBindResponse(WithResponseCode(code))
			return x, x.baseResponse, ApplicationBindResponse
		case 1:
			x := r.NewSearchDoneResponse(WithResponseCode(code))
			return x, x.baseResponse, ApplicationSearchResultDone
		case 2:
			x := r.NewExtendedResponse(WithResponseCode(code))
			return x, x.baseResponse, ApplicationExtendedResponse
		default:
			x := r.NewResponse(WithResponseCode(code), WithApplicationCode(ApplicationDelResponse))
			return x, x.baseResponse, ApplicationDelResponse
		}
	}
	first, b1, app1 = mk(vLen("kind1", 3), c1)
	second, b2, app2 = mk(vLen("kind2", 3), c2)
	// values are set in an interleaved order
	b1.SetDiagnosticMessage(d1)
	b2.SetDiagnosticMessage(d2)
	b2.SetMatchedDN(m2)
	b1.SetMatchedDN(m1)
	vAssert(w.Write(first) == nil && w.Write(second) == nil, "both writes ok")
	want := rResult(id, app1, int64(c1), m1, d1, nil) + rResult(id, app2, int64(c2), m2, d2, nil)
	vAssert(sink() == want, "each of two responses from one request carries its own values")
	vReach("written")
}

func init() { vReg("H_C04_latecontrol", H_C04_latecontrol) }

// A handler attaches a paging control to the response first and fills in its cookie
// afterwards (before Write): the client receives the control as it is when the
// response is written.
func H_C04_latecontrol() {
	r, w, sink, id := vRespSetup()
	size := vU32("size")
	cookie := vS("cookie")
	done := vBool("searchDone")
	p, err := NewControlPaging(size)
	vAssume(err == nil)
	c := ctlSpec{kind: ckPaging, oid: ControlTypePaging, size: size, cookie: cookie}
	if done {
		resp := r.NewSearchDoneResponse()
		resp.SetControls(p)
		p.SetCookie([]byte(cookie))
		vAssert(w.Write(resp) == nil, "write ok")
		vAssert(sink() == rResult(id, ApplicationSearchResultDone, 0, "", "", []ctlSpec{c}), "search done carries the control as it is at Write")
	} else {
		resp := r.NewBindResponse()
		resp.SetControls(p)
		p.SetCookie([]byte(cookie))
		vAssert(w.Write(resp) == nil, "write ok")
		vAssert(sink() == rResult(id, ApplicationBindResponse, 0, "", "", []ctlSpec{c}), "bind response carries the control as it is at Write")
	}
	vReach("written")
}
