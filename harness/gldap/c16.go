//go:build verif

package gldap

import (
	ber "github.com/go-asn1-ber/asn1-ber"
)

func init() {
	vReg("H_C16_convert_total", H_C16_convert_total)
	vReg("H_C16_convert_roundtrip", H_C16_convert_roundtrip)
}

// ConvertString never panics, for 1..2 arbitrary strings.
func H_C16_convert_total() {
	n := 1 + vLen("nargs", 1)
	args := make([]string, 0, 2)
	args = append(args, vStr("s0"))
	if n == 2 {
		args = append(args, vStr("s1"))
	}
	_, _ = ConvertString(args...)
	vReach("returned")
}

// ConvertString inverts BER octet-string wrapping for every string.
func H_C16_convert_roundtrip() {
	v := vStr("v")
	wrapped := string(ber.NewString(ber.ClassUniversal, ber.TypePrimitive, ber.TagOctetString, v, "").Bytes())
	out, err := ConvertString(wrapped)
	vAssert(err == nil, "no error")
	if err == nil {
		vAssert(len(out) == 1, "one result")
		if len(out) == 1 {
			vAssert(out[0] == v, "result equals original")
		}
	}
	vReach("roundtrip")
}
