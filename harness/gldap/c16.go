//go:build verif

package gldap

import (
	"context"
	"fmt"

	ber "github.com/go-asn1-ber/asn1-ber"
)

func init() {
	vReg("H_C16_convert_total", H_C16_convert_total)
	vReg("H_C16_convert_total2", H_C16_convert_total2)
	vReg("H_C16_convert_roundtrip", H_C16_convert_roundtrip)
	vReg("H_C16_sid", H_C16_sid)
	vReg("H_C16_sid_total", H_C16_sid_total)
	vReg("H_C16_entry", H_C16_entry)
	vReg("H_C16_responses", H_C16_responses)
	vReg("H_C16_controls", H_C16_controls)
	vReg("H_C16_mux", H_C16_mux)
}

// ConvertString never panics on one arbitrary string.
func H_C16_convert_total() {
	_, _ = ConvertString(vStr("s0"))
	vReach("returned")
}

// ... nor on two (the loop continues correctly after the first).
func H_C16_convert_total2() {
	_, _ = ConvertString(vStr("s0"), vStr("s1"))
	vReach("returned")
}

// ConvertString inverts BER octet-string wrapping for every string.
func H_C16_convert_roundtrip() {
	v := vStr("v")
	wrapped := string(ber.NewString(ber.ClassUniversal, ber.TypePrimitive, ber.TagOctetString, v, "").Bytes())
	out, err := ConvertString(wrapped)
	vAssert(err == nil, "no error")
	if err == nil {
		vAssert(len(out) == 1, "one result")
		if len(out) == 1 {
			vAssert(out[0] == v, "result equals original")
		}
	}
	vReach("roundtrip")
}

// SIDBytesToString(SIDBytes(r, a)) == "S-r-a" for every r and a.
func H_C16_sid() {
	r, a := vU8("r"), vU16("a")
	b, err := SIDBytes(r, a)
	vAssert(err == nil, "SIDBytes no error")
	if err != nil {
		return
	}
	s, err := SIDBytesToString(b)
	vAssert(err == nil, "SIDBytesToString no error")
	if err == nil {
		vAssert(s == fmt.Sprintf("S-%d-%d", r, a), "S-r-a")
	}
	vReach("sid")
}

// SIDBytesToString never panics on arbitrary bytes.
func H_C16_sid_total() {
	b := vBytes("b")
	vAssume(len(b) <= 16)
	_, _ = SIDBytesToString(b)
	vReach("returned")
}

// NewEntry: same attribute order for every map iteration order; string and
// byte values equal element by element, also after AddValue.
func H_C16_entry() {
	v1, v2, v3 := vStr("v1"), vStr("v2"), vStr("v3")
	n := vLen("nattrs", 3)
	m := map[string][]string{}
	names := []string{"cn", "CN", "mail"} // two names differ only by case
	// the third attribute: no value, or one value of two arbitrary bytes (NUL and
	// other binary content included, as in objectSid / jpegPhoto values)
	b0, b1 := vU64("bin0"), vU64("bin1")
	vAssume(b0 < 256 && b1 < 256)
	third := []string{}
	if vBool("binaryValue") {
		third = []string{string([]byte{byte(b0), byte(b1)})}
	}
	vals := [][]string{{v1, v2}, {v3}, third}
	for i := 0; i < n; i++ {
		m[names[i]] = vals[i]
	}
	e1 := NewEntry(vStr("dn"), m)
	vPermute("perm")
	e2 := NewEntry(vStr("dn"), m)
	if !vIsEngine() {
		// natively the map's iteration order is the runtime's (random) choice: repeat the call so
		// that a dependence on it shows up reliably when a finding is replayed
		for k := 0; k < 32; k++ {
			e3 := NewEntry("dn", m)
			for i := 0; i < len(e1.Attributes) && i < len(e3.Attributes); i++ {
				if e1.Attributes[i].Name != e3.Attributes[i].Name {
					e2 = e3
				}
			}
		}
	}
	vAssert(len(e1.Attributes) == n && len(e2.Attributes) == n, "all attributes present")
	for i := 0; i < len(e1.Attributes) && i < len(e2.Attributes); i++ {
		vAssert(e1.Attributes[i].Name == e2.Attributes[i].Name, "same order on every call")
		a := e2.Attributes[i]
		vAssert(len(a.Values) == len(a.ByteValues), "value counts equal")
		for j := range a.Values {
			if j < len(a.ByteValues) {
				vAssert(a.Values[j] == string(a.ByteValues[j]), "string and byte value equal")
			}
		}
	}
	// inductive step for AddValue on an arbitrary consistent attribute
	at := NewEntryAttribute(vStr("an"), []string{v1})
	nv := vLen("nadd", 2)
	add := []string{vStr("x1"), vStr("x2")}[:nv]
	at.AddValue(add...)
	vAssert(len(at.Values) == 1+nv && len(at.ByteValues) == 1+nv, "AddValue appends to both")
	for j := range at.Values {
		if j < len(at.ByteValues) {
			vAssert(at.Values[j] == string(at.ByteValues[j]), "string and byte value equal after AddValue")
		}
	}
	vReach("entry")
}

func vReq() *Request {
	return &Request{ID: 1, message: &SimpleBindMessage{baseMessage: baseMessage{id: vI64("msgid")}}}
}

// optPick returns an arbitrary subset/order (with nil Options) of opts.
func optPick(name string, opts []Option) []Option {
	n := vLen(name+".n", 3)
	var out []Option
	for i := 0; i < n; i++ {
		k := vLen(fmt.Sprintf("%s.%d", name, i), len(opts)) // == len(opts) -> nil Option
		if k == len(opts) {
			out = append(out, nil)
		} else {
			out = append(out, opts[k])
		}
	}
	return out
}

// Every New*Response constructor with any subset of its options: no panic.
func H_C16_responses() {
	r := vReq()
	code := vInt("code")
	opts := []Option{WithResponseCode(code), WithDiagnosticMessage(vStr("diag")), WithMatchedDN(vStr("mdn")),
		WithApplicationCode(vInt("app")), WithAttributes(map[string][]string{"a": {vStr("av")}})}
	sel := optPick("opt", opts)
	switch vLen("ctor", 5) {
	case 0:
		vAssert(r.NewResponse(sel...) != nil, "NewResponse non-nil")
	case 1:
		vAssert(r.NewBindResponse(sel...) != nil, "NewBindResponse non-nil")
	case 2:
		vAssert(r.NewExtendedResponse(sel...) != nil, "NewExtendedResponse non-nil")
	case 3:
		vAssert(r.NewSearchDoneResponse(sel...) != nil, "NewSearchDoneResponse non-nil")
	case 4:
		vAssert(r.NewSearchResponseEntry(vStr("edn"), sel...) != nil, "NewSearchResponseEntry non-nil")
	case 5:
		vAssert(r.NewModifyResponse(sel...) != nil, "NewModifyResponse non-nil")
	}
	vReach("constructed")
}

// Every NewControl* constructor: no panic; invalid input -> error.
func H_C16_controls() {
	opts := []Option{WithCriticality(vBool("crit")), WithControlValue(vStr("cv")), WithGraceAuthNsRemaining(uint(vU64("grace"))),
		WithSecondsBeforeExpiration(uint(vU64("expire"))), WithErrorCode(uint(vU64("errcode")))}
	sel := optPick("opt", opts)
	switch vLen("ctor", 6) {
	case 0:
		c, err := NewControlString(vStr("oid"), sel...)
		vAssert((c == nil) == (err != nil), "ControlString: error xor value")
	case 1:
		c, err := NewControlManageDsaIT(sel...)
		vAssert(c != nil && err == nil, "ManageDsaIT")
	case 2:
		c, err := NewControlMicrosoftNotification(sel...)
		vAssert(c != nil && err == nil, "MicrosoftNotification")
	case 3:
		c, err := NewControlMicrosoftServerLinkTTL(sel...)
		vAssert(c != nil && err == nil, "MicrosoftServerLinkTTL")
	case 4:
		c, err := NewControlMicrosoftShowDeleted(sel...)
		vAssert(c != nil && err == nil, "MicrosoftShowDeleted")
	case 5:
		c, err := NewControlBeheraPasswordPolicy(sel...)
		vAssert((c == nil) == (err != nil), "Behera: error xor value")
	case 6:
		c, err := NewControlPaging(vU32("size"), sel...)
		vAssert(c != nil && err == nil, "Paging")
	}
	vReach("constructed")
}

// Mux registration methods: nil handler -> error, never a panic.
func H_C16_mux() {
	m, err := NewMux()
	vAssert(err == nil && m != nil, "NewMux")
	var h HandlerFunc
	if vBool("nonnil") {
		h = func(*ResponseWriter, *Request) {}
	}
	opts := optPick("opt", []Option{WithLabel(vStr("label")), WithBaseDN(vStr("base")), WithFilter(vStr("filter")), WithScope(Scope(vI64("scope")))})
	var e error
	switch vLen("method", 7) {
	case 0:
		e = m.Bind(h, opts...)
	case 1:
		e = m.Search(h, opts...)
	case 2:
		e = m.ExtendedOperation(h, ExtendedOperationName(vStr("exname")), opts...)
	case 3:
		e = m.Modify(h, opts...)
	case 4:
		e = m.Add(h, opts...)
	case 5:
		e = m.Delete(h, opts...)
	case 6:
		e = m.Unbind(h, opts...)
	case 7:
		e = m.DefaultRoute(h, opts...)
	}
	vAssert((e != nil) == (h == nil), "error iff nil handler")
	vReach("registered")
}

func init() { vReg("H_C16_zeromux", H_C16_zeromux) }

// A zero-value Mux (not built by NewMux) accepts every kind of registration and serves.
func H_C16_zeromux() {
	m := &Mux{}
	ran := 0
	h := func(w *ResponseWriter, r *Request) { ran++ }
	var err error
	switch vLen("registration", 7) {
	case 0:
		err = m.Bind(h)
	case 1:
		err = m.Search(h, WithBaseDN(vStr("base")))
	case 2:
		err = m.ExtendedOperation(h, ExtendedOperationName(vStr("name")))
	case 3:
		err = m.Modify(h)
	case 4:
		err = m.Add(h)
	case 5:
		err = m.Delete(h)
	case 6:
		err = m.Unbind(h)
	case 7:
		err = m.DefaultRoute(h)
	}
	vAssert(err == nil, "registration on a zero-value Mux succeeds")
	vAssert(m.DefaultRoute(h) == nil, "default route on a zero-value Mux")
	nc := vNetConn("c")
	c, cerr := newConn(context.Background(), 1, nc, vLogger(), m)
	vAssume(cerr == nil)
	vSummarise("encodeInteger")
	req, rerr := newRequest(1, c, &packet{Packet: vWire(refEnvelope(1, refDeleteOp(), nil))})
	vAssume(rerr == nil && req != nil)
	w, werr := newResponseWriter(c.writer, &c.writerMu, c.logger, int(c.connID), 1)
	vAssume(werr == nil)
	m.serve(w, req)
	vAssert(ran == 1, "the request is served by a registered route")
	vReach("zero mux")
}
