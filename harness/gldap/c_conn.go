//go:build verif

package gldap

import (
	"context"
	"crypto/tls"
	"fmt"
	"sync"

	ber "github.com/go-asn1-ber/asn1-ber"
)

func init() {
	vReg("H_C10_unbind", H_C10_unbind)
	vReg("H_C06_numbering", H_C06_numbering)
	vReg("H_C13_starttls", H_C13_starttls)
}

func refDeleteOp() *ber.Packet {
	op := ber.Encode(ber.ClassApplication, ber.TypePrimitive, ApplicationDelRequest, nil, "")
	op.Data.Write([]byte("cn=u"))
	return op
}

func refUnbindOp() *ber.Packet {
	return ber.Encode(ber.ClassApplication, ber.TypePrimitive, ApplicationUnbindRequest, nil, "")
}

func refStartTLSOp() *ber.Packet {
	return refApp(ApplicationExtendedRequest, refCtxPrim(0, string(ExtendedOperationStartTLS)))
}

// frame of symbolic kind (0 delete, 1 add, 2 search) with message id i+1
func vFrame(name string, id int64) *ber.Packet {
	var op *ber.Packet
	switch vLen(name+".kind", 2) {
	case 0:
		op = refDeleteOp()
	case 1:
		op = refApp(ApplicationAddRequest, refOctet("cn=u"), refSeq())
	default:
		// an extended operation other than StartTLS (any name up to 24 bytes):
		// dispatched concurrently like every other request
		ex := vStr(name + ".exname")
		vAssume(len(ex) <= 24)
		vAssume(ex != string(ExtendedOperationStartTLS))
		op = refApp(ApplicationExtendedRequest, refCtxPrim(0, ex))
	}
	return vWire(refEnvelope(id, op, nil))
}

func init() { vReg("H_C10_manyblocked", H_C10_manyblocked) }

// C10 with many earlier handlers still running when the Unbind is read
// (concrete frames; N fixed per tier): the Unbind ends the connection and
// nothing after it is served, however many requests are in flight.
func H_C10_manyblocked() {
	N := 17 + 16*vLen("moreBlocked", 1) // 17 or 33 handlers in flight
	m := vMux()
	g := vGate("release")
	var mu sync.Mutex
	started, finished := 0, 0
	late := 0
	hf := func(w *ResponseWriter, r *Request) {
		mu.Lock()
		started++
		if r.ID > N {
			late++
		}
		mu.Unlock()
		vGateWait(g)
		mu.Lock()
		finished++
		mu.Unlock()
	}
	vAssume(m.Delete(hf) == nil && m.DefaultRoute(hf) == nil)
	nc := vNetConn("c")
	for i := 0; i < N; i++ {
		vConnFeed(nc, vWire(refEnvelope(int64(i+1), refDeleteOp(), nil)))
	}
	vConnFeed(nc, vWire(refEnvelope(int64(N+1), refUnbindOp(), nil)))
	vConnFeed(nc, vWire(refEnvelope(int64(N+2), refDeleteOp(), nil)))
	c, err := newConn(context.Background(), 1, nc, vLogger(), m)
	vAssume(err == nil)
	done := false
	var serr error
	go func() {
		serr = c.serveRequests()
		mu.Lock()
		done = true
		mu.Unlock()
	}()
	vQuiesce()
	mu.Lock()
	vAssertE(done && serr == nil, "the read loop ends at the Unbind although earlier handlers are still running")
	vAssertE(started == N && finished == 0, "every request before the Unbind was dispatched; none has finished")
	vAssertE(late == 0, "nothing after the Unbind reaches a handler")
	mu.Unlock()
	vAssertE(vConnFramesRead(nc) == N+1, "no frame is read after the Unbind")
	vAssertE(vConnWrites(nc) == 0, "gldap sends no response to Unbind")
	vGateOpen(g)
	c.requestsWg.Wait()
	vAssert(c.close() == nil, "close ok")
	vAssert(vConnClosed(nc) == 1, "connection closed once")
	vReach("manyblocked")
}

// C10: after an Unbind nothing is served.
func H_C10_unbind() {
	vSchedFork(1) // handlers may start late (after the read loop went on / reached the Unbind)
	L := 1 + vLen("extraFrames", 3) // 1..4 frames
	pos := vLen("unbindPos", L-1)
	m := vMux()
	var mu sync.Mutex
	var handled []int
	unbinds := 0
	answers := vBool("handlersAnswer")
	firstPanics := vBool("firstHandlerPanics") // recovered by gldap; the connection carries on
	hf := func(w *ResponseWriter, r *Request) {
		mu.Lock()
		handled = append(handled, r.ID)
		mu.Unlock()
		if firstPanics && r.ID == 1 {
			panic("handler panic")
		}
		if answers {
			_ = w.Write(r.NewResponse(WithResponseCode(ResultSuccess)))
		}
	}
	vAssume(m.Delete(hf) == nil && m.Add(hf) == nil && m.DefaultRoute(hf) == nil)
	withRoute := vBool("unbindRoute")
	panics := false
	if withRoute {
		panics = vBool("unbindHandlerPanics")
		vAssume(m.Unbind(func(w *ResponseWriter, r *Request) {
			mu.Lock()
			unbinds++
			vAssert(r.ID == pos+1, "unbind handler sees the unbind request")
			mu.Unlock()
			if panics {
				panic("unbind handler panic")
			}
		}) == nil)
	}
	nc := vNetConn("c")
	// the client may have stopped taking responses: every write to it fails (and the
	// connection's buffered writer remembers the error)
	writesFail := answers && vBool("writesFail")
	vConnSet(nc, "writeFail", writesFail)
	for i := 0; i < L; i++ {
		if i == pos {
			vConnFeed(nc, vWire(refEnvelope(int64(i+1), refUnbindOp(), nil)))
		} else {
			vConnFeed(nc, vFrame(fmt.Sprintf("f%d", i), int64(i+1)))
		}
	}
	c, err := newConn(context.Background(), 1, nc, vLogger(), m)
	vAssume(err == nil)
	var serr error
	func() {
		// like the connection goroutine of Run: a panic on the read loop is recovered there
		defer func() {
			if rec := recover(); rec != nil {
				vAssert(panics, "only the panicking unbind handler panics")
			}
		}()
		serr = c.serveRequests()
	}()
	vAssert(serr == nil, "serveRequests ends without error on Unbind")
	cerr := c.close()
	vAssert(cerr == nil, "close ok")
	mu.Lock()
	defer mu.Unlock()
	if withRoute {
		vAssert(unbinds == 1, "unbind handler runs exactly once")
	} else {
		vAssert(unbinds == 0, "no unbind handler without a route")
	}
	vAssert(len(handled) == pos, "exactly the requests before the Unbind are served")
	for _, id := range handled {
		vAssert(id >= 1 && id <= pos, "nothing after the Unbind reaches a handler")
	}
	wantWrites := 0
	if answers && !writesFail {
		wantWrites = len(handled)
		if firstPanics && pos >= 1 {
			wantWrites-- // the panicking handler did not answer
		}
	}
	vAssert(vConnWrites(nc) == wantWrites, "gldap sends no response to Unbind (only the handlers' answers are written)")
	vAssertE(vConnFramesRead(nc) == pos+1, "no frame is read after the Unbind")
	vAssert(vConnClosed(nc) == 1, "connection closed once")
	vReach("unbind done")
}

// C06: numbering in arrival order; dispatch without waiting for earlier handlers.
func H_C06_numbering() {
	vLateSched() // handlers run only when the read loop blocks or ends
	M := 1 + vLen("extraFrames", 2)
	m := vMux()
	nc := vNetConn("c")
	var mu sync.Mutex
	type rec struct {
		rid  int
		mid  int64
		read int
	}
	var got []rec
	hf := func(w *ResponseWriter, r *Request) {
		mu.Lock()
		defer mu.Unlock()
		got = append(got, rec{r.ID, r.message.GetID(), vConnFramesRead(nc)})
		vAssert(w.requestID == r.ID, "writer belongs to the request")
	}
	vAssume(m.Delete(hf) == nil && m.Add(hf) == nil && m.DefaultRoute(hf) == nil)
	ids := []int64{vI64("id0"), vI64("id1"), vI64("id2")}
	vSummarise("encodeInteger")
	for i := 0; i < M; i++ {
		vAssume(ids[i] >= 0 && ids[i] < 1<<31)
		vConnFeed(nc, vFrame(fmt.Sprintf("f%d", i), ids[i]))
	}
	failAfter := vBool("readErrorAtEnd")
	if failAfter {
		vConnFeedErr(nc, "connection reset by peer")
	}
	c, err := newConn(context.Background(), 1, nc, vLogger(), m)
	vAssume(err == nil)
	serr := c.serveRequests()
	vAssert((serr != nil) == failAfter, "serveRequests error iff the read failed")
	c.requestsWg.Wait()
	mu.Lock()
	defer mu.Unlock()
	vAssert(len(got) == M, "every request dispatched exactly once")
	seen := map[int]bool{}
	for _, g := range got {
		vAssert(g.rid >= 1 && g.rid <= M && !seen[g.rid], "request IDs are 1..M, each once")
		seen[g.rid] = true
		if g.rid >= 1 && g.rid <= M {
			vAssert(g.mid == ids[g.rid-1], "request j is the j-th frame read")
		}
		// under the late schedule a handler starts only after the read loop has gone on:
		// the loop must not have waited for it
		vAssertE(g.read == M, "later requests are read and dispatched without waiting for earlier handlers")
	}
	vReach("numbered")
}

// C13(a): StartTLS is handled on the read loop; afterwards reader, writer and
// netConn wrap the same TLS connection over the accepted socket.
func H_C13_starttls() {
	M := 1 + vLen("extraFrames", 2)
	pos := vLen("startTLSPos", M-1)
	m := vMux()
	nc := vNetConn("c")
	cfg := &tls.Config{MinVersion: tls.VersionTLS12}
	var mu sync.Mutex
	type rec struct {
		rid      int
		readerOn string
		writerOn string
		wOn      string
	}
	var got []rec
	inHandler := false
	hf := func(w *ResponseWriter, r *Request) {
		mu.Lock()
		defer mu.Unlock()
		got = append(got, rec{r.ID, vConnLayer(r.conn.reader), vConnLayer(r.conn.writer), vConnLayer(w.writer)})
		// numbering and connection identity carry on across the upgrade
		vAssertE(int64(r.ID) == r.message.GetID(), "requests are numbered in arrival order, before and after the upgrade")
		vAssertE(r.ConnectionID() == 7 && int(w.connID) == 7, "the connection keeps its ID across the upgrade")
		werr := w.Write(r.NewResponse(WithResponseCode(ResultSuccess)))
		// whatever time has passed since the upgrade (no write timeout is configured)
		vAssertE(werr == nil, "requests before and after the upgrade are answered as on a plain connection")
	}
	vAssume(m.Delete(hf) == nil && m.Add(hf) == nil && m.DefaultRoute(hf) == nil)
	tlsOK := vBool("handshakeOK")
	vConnSet(nc, "tlsOK", tlsOK)
	// a client that pipelines plaintext requests behind its StartTLS request in the same segment
	vConnSet(nc, "pipelined", vBool("clientPipelinesPlaintext"))
	var startErr error
	// handler timing: prompt, or held up (for as long as it takes until nothing else in
	// the program can make progress) before / after its reply
	slow := vLen("startTLSHandlerDelay", 2)
	slowGate := vGate("slow StartTLS handler")
	if slow != 0 {
		go func() {
			vQuiesce()
			vGateOpen(slowGate)
		}()
	}
	framesAtStart, framesAtEnd := -1, -1
	startTLSHandler := func(w *ResponseWriter, r *Request) {
		inHandler = true
		vAssertE(int64(r.ID) == r.message.GetID() && r.ConnectionID() == 7, "the StartTLS request has its arrival number and the connection's ID")
		framesAtStart = vConnFramesRead(nc)
		if slow == 1 {
			vGateWait(slowGate) // a handler that is slow before it replies
		}
		_ = w.Write(r.NewExtendedResponse(WithResponseCode(ResultSuccess)))
		if slow == 2 {
			vGateWait(slowGate) // ... or between the reply and the handshake
		}
		startErr = r.StartTLS(cfg)
		framesAtEnd = vConnFramesRead(nc)
		inHandler = false
	}
	// the StartTLS handler is reached through a dedicated route, or through the default
	// route of an application that routes extended operations itself
	if vBool("startTLSViaDefaultRoute") {
		vAssume(m.DefaultRoute(func(w *ResponseWriter, r *Request) {
			if r.extendedName == ExtendedOperationStartTLS {
				startTLSHandler(w, r)
				return
			}
			hf(w, r)
		}) == nil)
	} else {
		vAssume(m.ExtendedOperation(startTLSHandler, ExtendedOperationStartTLS) == nil)
	}
	for i := 0; i < M; i++ {
		if i == pos {
			vConnFeed(nc, vWire(refEnvelope(int64(i+1), refStartTLSOp(), nil)))
		} else {
			vConnFeed(nc, vFrame(fmt.Sprintf("f%d", i), int64(i+1)))
		}
	}
	c, err := newConn(context.Background(), 7, nc, vLogger(), m)
	vAssume(err == nil)
	_ = c.serveRequests()
	c.requestsWg.Wait()
	vAssertE(!inHandler, "handler finished")
	vAssertE(int(c.connID) == 7, "the connection's ID is unchanged at the end")
	vAssertE(framesAtStart == pos+1 && framesAtEnd == pos+1, "no frame is read while the StartTLS handler runs")
	vAssertE((startErr == nil) == tlsOK, "StartTLS succeeds iff the handshake does")
	if tlsOK {
		vAssertE(vConnLayer(c.reader) == "reader(tls(raw(c)))", "reader wraps the TLS connection over the accepted socket")
		vAssertE(vConnLayer(c.writer) == "writer(tls(raw(c)))", "writer wraps the TLS connection over the accepted socket")
		vAssertE(vConnLayer(c.netConn) == "tls(raw(c))", "netConn is the TLS connection")
		vAssertE(vTLSConfigOf(c.netConn) == cfg, "handshake used the configuration passed to StartTLS")
		mu.Lock()
		for _, g := range got {
			if g.rid > pos+1 {
				vAssertE(g.readerOn == "reader(tls(raw(c)))" && g.wOn == "writer(tls(raw(c)))", "requests after the upgrade are read and answered through TLS")
			}
		}
		mu.Unlock()
		// every frame after the upgrade was read through the TLS layer, every write after it too
		vAssertE(vConnFramesRead(nc) == M, "all frames read")
	} else {
		vAssertE(vConnLayer(c.reader) == "reader(raw(c))" && vConnLayer(c.writer) == "writer(raw(c))", "failed handshake leaves the plain pair in place")
	}
	vReach("starttls")
}

func init() {
	vReg("H_C06_blockedwriter", H_C06_blockedwriter)
	vReg("H_C06_manyblocked", H_C06_manyblocked)
}

// C06 at the upper end of the quantifier: a pipeline of 130 or 257 requests whose handlers
// all block until the last one has started — every request is handed to its handler.
func H_C06_manyblocked() {
	N := []int{130, 257}[vLen("pipeline", 1)]
	m := vMux()
	g := vGate("release")
	var mu sync.Mutex
	started := 0
	seen := map[int]bool{}
	hf := func(w *ResponseWriter, r *Request) {
		mu.Lock()
		started++
		seen[r.ID] = true
		mu.Unlock()
		vGateWait(g)
	}
	vAssume(m.Delete(hf) == nil && m.DefaultRoute(hf) == nil)
	nc := vNetConn("c")
	for i := 0; i < N; i++ {
		vConnFeed(nc, vWire(refEnvelope(int64(i+1), refDeleteOp(), nil)))
	}
	vConnFeedBlock(nc)
	c, err := newConn(context.Background(), 1, nc, vLogger(), m)
	vAssume(err == nil)
	go func() { _ = c.serveRequests() }()
	vQuiesce()
	mu.Lock()
	vAssertE(started == N && len(seen) == N, "every request of the pipeline was handed to its handler although all earlier handlers are still blocked")
	mu.Unlock()
	vGateOpen(g)
	_ = nc.Close()
	vQuiesce()
	vReach("many blocked")
}

// C06: a handler blocked in Write (client not reading) delays neither the
// dispatch of later requests on the same connection nor another connection.
func H_C06_blockedwriter() {
	M := 2 + vLen("extraFrames", 1)
	m := vMux()
	var mu sync.Mutex
	entered := map[string]int{}
	hf := func(w *ResponseWriter, r *Request) {
		mu.Lock()
		entered[fmt.Sprint(r.ConnectionID())]++
		mu.Unlock()
		_ = w.Write(r.NewResponse(WithResponseCode(ResultSuccess)))
	}
	vAssume(m.Delete(hf) == nil && m.Add(hf) == nil && m.DefaultRoute(hf) == nil)
	c1, c2 := vNetConn("c1"), vNetConn("c2")
	vConnSet(c1, "writeBlock", true) // the first client never reads its responses
	for i := 0; i < M; i++ {
		vConnFeed(c1, vFrame(fmt.Sprintf("f%d", i), int64(i+1)))
	}
	vConnFeedBlock(c1)
	vConnFeed(c2, vWire(refEnvelope(1, refDeleteOp(), nil)))
	vConnFeedBlock(c2)
	k1, err := newConn(context.Background(), 1, c1, vLogger(), m)
	vAssume(err == nil)
	k2, err := newConn(context.Background(), 2, c2, vLogger(), m)
	vAssume(err == nil)
	go func() { _ = k1.serveRequests() }()
	go func() { _ = k2.serveRequests() }()
	vQuiesce()
	mu.Lock()
	vAssertE(entered["1"] == M, "every later request on the connection is dispatched although an earlier handler is blocked writing")
	vAssertE(entered["2"] == 1, "another connection is served meanwhile")
	mu.Unlock()
	vAssertE(vConnWrites(c2) == 1, "the other connection receives its response")
	vReach("blockedwriter")
}

func init() {
	vReg("H_C05_writers", H_C05_writers)
	vReg("H_C05_step", H_C05_step)
}

// C05(i): concurrent handlers writing on one connection (ResponseWriters come
// from the real serveRequests loop, so the lock identity is the code's).
func H_C05_writers() {
	vSchedFork(1)
	vPreemptBudget(vLen("preemptions", 1))
	N := 2 + vLen("extraWriters", 1)
	m := vMux()
	nc := vNetConn("c")
	upgraded := vBool("afterStartTLS")
	if upgraded && !vIsEngine() {
		vSkipNative() // a real TLS handshake over the fake connection is not replayed natively
	}
	hf := func(w *ResponseWriter, r *Request) {
		// every handler writes two frames: message ID = 10*requestID + k
		for k := 0; k < 2; k++ {
			vEvent("W.begin", r.ID, k)
			err := w.Write(r.NewResponse(WithResponseCode(ResultSuccess), WithDiagnosticMessage(fmt.Sprintf("frame-%d-%d", r.ID, k))))
			vEvent("W.end", r.ID, k)
			vAssert(err == nil, "write succeeds")
		}
	}
	vAssume(m.Delete(hf) == nil && m.Add(hf) == nil && m.DefaultRoute(hf) == nil)
	first := 1
	if upgraded {
		vConnSet(nc, "tlsOK", true)
		vAssume(m.ExtendedOperation(func(w *ResponseWriter, r *Request) {
			_ = w.Write(r.NewExtendedResponse(WithResponseCode(ResultSuccess)))
			_ = r.StartTLS(vTLSConfig())
		}, ExtendedOperationStartTLS) == nil)
		vConnFeed(nc, vWire(refEnvelope(1, refStartTLSOp(), nil)))
		first = 2
	}
	for i := 0; i < N; i++ {
		vConnFeed(nc, vFrame(fmt.Sprintf("f%d", i), int64(first+i)))
	}
	c, err := newConn(context.Background(), 1, nc, vLogger(), m)
	vAssume(err == nil)
	_ = c.serveRequests()
	c.requestsWg.Wait()
	// the stream is a concatenation of whole LDAPMessages, one per successful Write
	extra := 0
	if upgraded {
		extra = 1
	}
	total := vConnWrites(nc)
	vAssert(total == 2*N+extra, "exactly one frame reaches the client per successful Write")
	lastK := map[string]int{}
	for i := extra; i < total; i++ {
		p := ber.DecodePacket(vConnWriteN(nc, i))
		vAssert(p != nil && len(p.Children) >= 2, "every chunk the client receives is one whole LDAPMessage")
		if p == nil || len(p.Children) < 2 {
			continue
		}
		if upgraded {
			vAssertE(vConnWriteLayer(nc, i) == "tls", "after the upgrade frames travel through the TLS connection")
		}
		diag := ""
		if len(p.Children[1].Children) >= 3 {
			diag = p.Children[1].Children[2].Data.String()
		}
		var rid, k int
		_, serr := fmt.Sscanf(diag, "frame-%d-%d", &rid, &k)
		vAssert(serr == nil && rid >= first && rid < first+N && k >= 0 && k < 2, "frame is one that some handler wrote")
		key := fmt.Sprint(rid)
		prev, seen := lastK[key]
		if !seen {
			prev = -1
		}
		vAssert(k == prev+1, "frames of one handler arrive in the order written, none duplicated or lost")
		lastK[key] = k
	}
	for i := 0; i < N; i++ {
		vAssert(lastK[fmt.Sprint(first+i)] == 1, "both frames of every handler arrived")
	}
	vReach("writers")
}

func init() { vReg("H_C05_shared_writer", H_C05_shared_writer) }

// C05: one handler that writes from two goroutines through its ResponseWriter (a search
// handler streaming entries from a worker while it writes itself): each successful Write
// still puts exactly its own frame on the wire, once.
func H_C05_shared_writer() {
	vSchedFork(1)
	vPreemptBudget(1 + vLen("extraPreemptions", 1))
	m := vMux()
	nc := vNetConn("c")
	write := func(w *ResponseWriter, r *Request, tag string) {
		vEvent("W.begin", tag)
		err := w.Write(r.NewResponse(WithResponseCode(ResultSuccess), WithDiagnosticMessage("frame-"+tag)))
		vEvent("W.end", tag)
		vAssert(err == nil, "write succeeds")
	}
	hf := func(w *ResponseWriter, r *Request) {
		done := vGate("worker done")
		go func() {
			defer vGateOpen(done)
			write(w, r, "worker")
		}()
		write(w, r, "handler")
		vGateWait(done)
	}
	vAssume(m.Delete(hf) == nil)
	vConnFeed(nc, vWire(refEnvelope(1, refDeleteOp(), nil)))
	c, err := newConn(context.Background(), 1, nc, vLogger(), m)
	vAssume(err == nil)
	_ = c.serveRequests()
	c.requestsWg.Wait()
	total := vConnWrites(nc)
	vAssertE(total == 2, "exactly one frame reaches the client per successful Write")
	seen := map[string]int{}
	for i := 0; i < total; i++ {
		p := ber.DecodePacket(vConnWriteN(nc, i))
		vAssertE(p != nil && len(p.Children) >= 2 && len(p.Children[1].Children) >= 3, "every chunk the client receives is one whole LDAPMessage")
		if p == nil || len(p.Children) < 2 || len(p.Children[1].Children) < 3 {
			continue
		}
		seen[p.Children[1].Children[2].Data.String()]++
	}
	vAssertE(seen["frame-handler"] == 1 && seen["frame-worker"] == 1, "each of the two frames written arrives exactly once (none lost, none duplicated)")
	vReach("shared writer")
}

func init() { vReg("H_C05_upgrade_inflight", H_C05_upgrade_inflight) }

// C05 / C15: a client pipelines StartTLS behind a request whose handler is still
// in flight (a protocol violation by the client, but gldap's own state must stay
// race free): the in-flight handler's writes and the upgrade never touch the same
// bufio.Writer without a common lock.
func H_C05_upgrade_inflight() {
	vSchedFork(1)
	m := vMux()
	nc := vNetConn("c")
	hf := func(w *ResponseWriter, r *Request) {
		_ = w.Write(r.NewResponse(WithResponseCode(ResultSuccess)))
	}
	vAssume(m.Delete(hf) == nil && m.DefaultRoute(hf) == nil)
	vConnSet(nc, "tlsOK", true)
	vAssume(m.ExtendedOperation(func(w *ResponseWriter, r *Request) {
		_ = w.Write(r.NewExtendedResponse(WithResponseCode(ResultSuccess)))
		_ = r.StartTLS(vTLSConfig())
	}, ExtendedOperationStartTLS) == nil)
	vConnFeed(nc, vWire(refEnvelope(1, refDeleteOp(), nil)))
	vConnFeed(nc, vWire(refEnvelope(2, refStartTLSOp(), nil)))
	vConnFeed(nc, vWire(refEnvelope(3, refDeleteOp(), nil)))
	c, err := newConn(context.Background(), 1, nc, vLogger(), m)
	vAssume(err == nil)
	_ = c.serveRequests()
	c.requestsWg.Wait()
	vAssertE(vConnLayer(c.writer) == "writer(tls(raw(c)))", "the connection was upgraded")
	vAssertE(vConnWrites(nc) == 3, "every response was written once")
	vReach("upgrade inflight")
}

func init() { vReg("H_C05_shutdown_notice", H_C05_shutdown_notice) }

// C05 / C15: the server is stopped while handlers of the connection are still
// writing: the read loop's notice of disconnection and the handlers' responses
// go through the same bufio.Writer and must be serialised like any two responses.
func H_C05_shutdown_notice() {
	vSchedFork(1)
	m := vMux()
	nc := vNetConn("c")
	hf := func(w *ResponseWriter, r *Request) {
		_ = w.Write(r.NewResponse(WithResponseCode(ResultSuccess)))
	}
	vAssume(m.Delete(hf) == nil && m.DefaultRoute(hf) == nil)
	ctx, cancel := context.WithCancel(context.Background())
	N := 1 + vLen("extraRequests", 1)
	for i := 0; i < N; i++ {
		vConnFeed(nc, vWire(refEnvelope(int64(i+1), refDeleteOp(), nil)))
	}
	vConnFeedCall(nc, cancel) // Stop arrives while the loop is about to read the next request
	vConnFeed(nc, vWire(refEnvelope(int64(N+1), refDeleteOp(), nil)))
	c, err := newConn(ctx, 1, nc, vLogger(), m)
	vAssume(err == nil)
	_ = c.serveRequests()
	c.requestsWg.Wait()
	total := vConnWrites(nc)
	vAssert(total == N+2, "one frame per response plus the notice of disconnection")
	for i := 0; i < total; i++ {
		p := ber.DecodePacket(vConnWriteN(nc, i))
		vAssert(p != nil && len(p.Children) >= 2, "every chunk the client receives is one whole LDAPMessage")
	}
	vReach("shutdown notice")
}

func init() { vReg("H_C05_bigframes", H_C05_bigframes) }

// C05: concrete frame sizes around the buffer and record sizes a writer stack is likely
// to chunk at (100 B, 4 KiB +- 1, 16 KiB +- 1, 20 000 B, 64 KiB + 1, 70 000 B): the bytes
// that reach the client are exactly the response's bytes, once.
func H_C05_bigframes() {
	// everything concrete (message ID 5 on connection 7): the whole frame is concrete bytes
	nc := vNetConn("c")
	c, err := newConn(context.Background(), 7, nc, vLogger(), vMux())
	vAssume(err == nil)
	r := &Request{ID: 1, conn: c, message: &SimpleBindMessage{baseMessage: baseMessage{id: 5}}}
	w, err := newResponseWriter(c.writer, &c.writerMu, c.logger, int(c.connID), 1)
	vAssume(err == nil)
	sink := func() string { return string(vConnWritten(nc)) }
	sizes := []int{100, 4095, 4096, 4097, 16383, 16384, 16385, 20000, 65537, 70000}
	n := sizes[vLen("size", len(sizes)-1)]
	b := make([]byte, n)
	for i := range b {
		b[i] = byte('a' + i%26)
	}
	resp := r.NewResponse(WithResponseCode(ResultSuccess), WithDiagnosticMessage(string(b)))
	vAssert(w.Write(resp) == nil, "write ok")
	vAssert(sink() == string(resp.packet().Bytes()), "exactly the response's bytes reach the client, once")
	vReach("big frame")
}

// C05(ii): inductive step of one Write: from an empty buffer and a free lock,
// Write returns nil only after emitting exactly the response's bytes, contiguously.
func H_C05_step() {
	r, w, sink, id := vRespSetup()
	msg := vStr("diag") // any size: below, at and beyond the 4096-byte write buffer
	vAssume(len(msg) < 1<<16)
	resp := r.NewResponse(WithResponseCode(ResultSuccess), WithDiagnosticMessage(msg))
	fail := vBool("writeFails")
	vConnSet(r.conn.netConn, "writeFail", fail)
	err := w.Write(resp)
	if fail {
		vAssert(err != nil, "a failed write is reported")
		vAssert(len(sink()) == 0, "nothing is counted as written")
	} else {
		vAssert(err == nil, "write ok")
		vAssert(sink() == string(resp.packet().Bytes()), "exactly the response's bytes are emitted")
		vAssert(vConnWrites(r.conn.netConn) == 1, "in one contiguous chunk")
	}
	// the lock is free again and the buffer empty: a second Write behaves the same
	if !fail {
		err2 := w.Write(r.NewResponse(WithResponseCode(ResultSuccess)))
		vAssert(err2 == nil && vConnWrites(r.conn.netConn) == 2, "lock released and buffer empty after Write")
	}
	_ = id
	vReach("step")
}

func init() { vReg("H_C09_step", H_C09_step) }

// C09 (inductive step): for ANY connection id n > 0 and ANY request number k >= 1,
// the request built by the real newRequest reports ConnectionID() == n.
func H_C09_step() {
	n, k := vInt("connID"), vInt("requestID")
	vAssume(n > 0 && k >= 1)
	nc := vNetConn("c")
	c, err := newConn(context.Background(), n, nc, vLogger(), vMux())
	vAssert(err == nil && c != nil, "connection created for every positive id")
	if err != nil || c == nil {
		return
	}
	vAssert(int(c.connID) == n, "the connection stores the id it was given")
	vSummarise("encodeInteger")
	r, err := newRequest(k, c, &packet{Packet: vFrame("f", 1)})
	vAssert(err == nil && r != nil, "request built")
	if err != nil || r == nil {
		return
	}
	vAssert(r.ConnectionID() == n, "every request of the connection reports the connection's id, whatever its request number")
	vAssert(r.ID == k, "request number kept")
	w, err := newResponseWriter(c.writer, &c.writerMu, c.logger, int(c.connID), k)
	vAssert(err == nil && int(w.connID) == n, "response writer carries the same connection id")
	vReach("step")
}
