//go:build verif

package gldap

import (
	"runtime"
	"errors"
	"crypto/tls"
	"crypto/x509"
	"fmt"
	"sync"
	"time"

	ber "github.com/go-asn1-ber/asn1-ber"
)

func init() {
	vReg("H_C08_endings", H_C08_endings)
}

// vServer builds a Server through the public API with an OnClose recorder.
type vSrv struct {
	s       *Server
	mux     *Mux
	mu      sync.Mutex
	closes  []int
	runErr  error
	stopErr error
	ranRun  bool
	ranStop bool
}

func vNewSrv(opts ...Option) *vSrv {
	v := &vSrv{mux: vMux()}
	all := append([]Option{WithLogger(vLogger()), WithOnClose(func(id int) {
		vEvent("OnClose.enter", id)
		v.mu.Lock()
		v.closes = append(v.closes, id)
		v.mu.Unlock()
		vEvent("OnClose.exit", id)
	})}, opts...)
	s, err := NewServer(all...)
	vAssume(err == nil)
	v.s = s
	vAssume(s.Router(v.mux) == nil)
	return v
}

func (v *vSrv) goRun(opts ...Option) {
	go func() {
		v.runErr = v.s.Run("127.0.0.1:10389", opts...)
		v.ranRun = true
		vEvent("Run.return")
	}()
}

func (v *vSrv) goStop() {
	go func() {
		v.stopErr = v.s.Stop()
		v.ranStop = true
		vEvent("Stop.return")
	}()
}

func refMalformed(id int64) *ber.Packet {
	// an envelope with a single child: fails basic validation
	p := refSeq()
	p.AppendChild(refInt(id))
	return vWire(p)
}

func refUnsupported(id int64) *ber.Packet {
	return vWire(refEnvelope(id, refApp(ApplicationCompareRequest, refOctet("cn=u")), nil))
}

const (
	endEOF = iota
	endReset
	endUnbind
	endMalformed
	endUnsupported
	endTimeout
	endInlinePanic
	endStop
	endDeadlineErr
	endKinds
)

// C08(a): however a connection ends, the socket is closed once and OnClose is
// called once with its ID, after the handlers still running have returned.
func H_C08_endings() {
	vSchedFork(1) // every spawn: child first or spawner first
	ending := vLen("ending", endKinds-1)
	var opts []Option
	if ending == endTimeout || ending == endDeadlineErr {
		opts = append(opts, WithReadTimeout(time.Second))
	}
	v := vNewSrv(opts...)
	nc := vNetConn("c1")
	inflight := vLen("inflight", 2)
	if vBool("closeFails") {
		vConnSet(nc, "closeErr", true) // e.g. a TLS connection the client reset: Close reports an error
	}
	if inflight > 0 && vBool("clientNotReading") {
		// the client stops reading: responses block in Write until a deadline or close
		vConnSet(nc, "writeBlock", true)
	}
	gates := []*vGateT{vGate("h1"), vGate("h2")}
	var mu sync.Mutex
	running, finished := 0, 0
	// how the first handler ends: it returns, panics (gldap recovers), or ends its goroutine
	// with runtime.Goexit (what t.FailNow / require do inside a handler)
	firstEnds := 0
	if inflight > 0 {
		firstEnds = vLen("firstHandlerEnds", 2)
	}
	hf := func(w *ResponseWriter, r *Request) {
		mu.Lock()
		running++
		mu.Unlock()
		vEvent("handler.enter", r.ID)
		defer func() {
			vEvent("handler.exit", r.ID)
			mu.Lock()
			running--
			finished++
			mu.Unlock()
		}()
		if r.ID <= 2 {
			vGateWait(gates[r.ID-1])
		}
		_ = w.Write(r.NewResponse(WithResponseCode(ResultSuccess)))
		if r.ID == 1 {
			switch firstEnds {
			case 1:
				panic("handler panics")
			case 2:
				runtime.Goexit()
			}
		}
	}
	vAssume(v.mux.Delete(hf) == nil)
	vAssume(v.mux.ExtendedOperation(func(w *ResponseWriter, r *Request) { panic("handler panic on the read loop") }, ExtendedOperationStartTLS) == nil)
	if vBool("unbindRoute") {
		vAssume(v.mux.Unbind(func(w *ResponseWriter, r *Request) {}) == nil)
	}
	for i := 0; i < inflight; i++ {
		vConnFeed(nc, vWire(refEnvelope(int64(i+1), refDeleteOp(), nil)))
	}
	id := int64(inflight + 1)
	switch ending {
	case endEOF:
		vConnFeedEOF(nc)
	case endReset:
		vConnFeedErr(nc, "read: connection reset by peer")
	case endUnbind:
		vConnFeed(nc, vWire(refEnvelope(id, refUnbindOp(), nil)))
	case endMalformed:
		vConnFeed(nc, refMalformed(id))
	case endUnsupported:
		vConnFeed(nc, refUnsupported(id))
	case endTimeout:
		vConnFeedBlock(nc)
	case endInlinePanic:
		vConnFeed(nc, vWire(refEnvelope(id, refStartTLSOp(), nil)))
	case endStop:
		vConnFeedCall(nc, func() { v.goStop() })
		vConnFeed(nc, vWire(refEnvelope(id, refDeleteOp(), nil)))
	case endDeadlineErr:
		vConnSet(nc, "deadlineErr", true)
	}
	vEnvAccept(nc)
	v.goRun()
	vQuiesce()
	// handlers still blocked: the connection must not be closed nor reported yet
	mu.Lock()
	stillRunning := running
	mu.Unlock()
	if stillRunning > 0 {
		vAssertE(vConnClosed(nc) == 0, "socket is not closed while a handler of the connection is running")
		v.mu.Lock()
		vAssertE(len(v.closes) == 0, "OnClose is not called while a handler of the connection is running")
		v.mu.Unlock()
	}
	vGateOpen(gates[0])
	vGateOpen(gates[1])
	vQuiesce()
	if ending != endStop {
		v.goStop()
		vQuiesce()
	}
	vAssertE(vConnClosed(nc) == 1, "socket closed exactly once")
	v.mu.Lock()
	vAssertE(len(v.closes) == 1 && v.closes[0] == 1, "OnClose called exactly once with the connection's ID")
	v.mu.Unlock()
	vAssertE(vEventIndex("close", "c1", 0) >= 0 && vEventIndex("close", "c1", 0) < vEventIndex("h:OnClose.enter", "1", 0), "socket is closed before OnClose is called")
	mu.Lock()
	vAssertE(running == 0, "no handler of the connection is left running")
	mu.Unlock()
	vAssertE(vBlockedThreads() == 0, "no goroutine belonging to the connection remains")
	vAssertE(v.ranRun && v.runErr == nil, "Run returned nil after Stop")
	vAssertE(v.ranStop && v.stopErr == nil, "Stop returned")
	vReach("ended")
	_ = fmt.Sprint
}

func init() {
	vReg("H_C07_faults", H_C07_faults)
	vReg("H_C09_ids", H_C09_ids)
	vReg("H_C09_ids3", H_C09_ids3)
	vReg("H_C11_stop", H_C11_stop)
	vReg("H_C12_orders", H_C12_orders)
	vReg("H_C17_ready", H_C17_ready)
}

const (
	fltHandlerPanic = iota // concurrently dispatched operation
	fltStartTLSPanic
	fltUnbindPanic
	fltDefaultPanic
	fltReadReset
	fltMalformed
	fltWriteFail
	fltAcceptTemp
	fltNotReading
	fltResetInFlight
	fltSilentTLSPeer
	fltKinds
)

// C07: a fault on one connection / request never takes the server down.
func H_C07_faults() {
	vSchedFork(1)
	fault := vLen("fault", fltKinds-1)
	v := vNewSrv()
	served := map[string]int{}
	var mu sync.Mutex
	slow := vGate("victim's slow handler")
	ok := func(w *ResponseWriter, r *Request) {
		if fault == fltResetInFlight && r.ConnectionID() == 1 {
			vGateWait(slow)
		}
		if fault == fltWriteFail && r.ConnectionID() == 1 {
			// a handler that keeps writing after a failed write (e.g. entries, then the final result)
			_ = w.Write(r.NewResponse(WithResponseCode(ResultSuccess), WithApplicationCode(ApplicationDelResponse)))
		}
		err := w.Write(r.NewResponse(WithResponseCode(ResultSuccess), WithApplicationCode(ApplicationDelResponse)))
		mu.Lock()
		if err == nil {
			served[fmt.Sprint(r.ConnectionID())]++
		}
		mu.Unlock()
	}
	// what the handler panics with: a string, an error, or some other value
	panicWith := vLen("panicValue", 2)
	boom := func(w *ResponseWriter, r *Request) {
		switch panicWith {
		case 0:
			panic("handler panic")
		case 1:
			panic(errors.New("handler panic"))
		default:
			panic(42)
		}
	}
	// connection 1 is the victim, connection 2 the bystander; Delete is served normally, Add panics
	vAssume(v.mux.Delete(ok) == nil && v.mux.Add(boom) == nil)
	vAssume(v.mux.ExtendedOperation(boom, ExtendedOperationStartTLS) == nil)
	vAssume(v.mux.Unbind(boom) == nil)
	vAssume(v.mux.DefaultRoute(boom) == nil)
	c1, c2 := vNetConn("c1"), vNetConn("c2")
	switch fault {
	case fltHandlerPanic:
		vConnFeed(c1, vWire(refEnvelope(1, refApp(ApplicationAddRequest, refOctet("cn=u"), refSeq()), nil)))
		vConnFeed(c1, vWire(refEnvelope(2, refDeleteOp(), nil)))
	case fltStartTLSPanic:
		vConnFeed(c1, vWire(refEnvelope(1, refStartTLSOp(), nil)))
	case fltUnbindPanic:
		vConnFeed(c1, vWire(refEnvelope(1, refUnbindOp(), nil)))
	case fltDefaultPanic:
		vConnFeed(c1, vWire(refEnvelope(1, refApp(ApplicationModifyRequest, refOctet("cn=u"), refSeq()), nil)))
	case fltReadReset:
		vConnFeedErr(c1, "read: connection reset by peer")
	case fltMalformed:
		vConnFeed(c1, refMalformed(1))
	case fltWriteFail:
		vConnSet(c1, "writeFail", true)
		vConnFeed(c1, vWire(refEnvelope(1, refDeleteOp(), nil)))
	case fltResetInFlight:
		// the connection is reset while one of its handlers is still running; the handler
		// answers only after the bystander has come and been served
		vConnFeed(c1, vWire(refEnvelope(77, refDeleteOp(), nil)))
		vConnFeedErr(c1, "read: connection reset by peer")
	case fltSilentTLSPeer:
		// TLS listener, no timeouts: a peer connects and never sends its ClientHello
		vConnSet(c1, "tlsPending", true)
		vConnSet(c2, "tlsOK", true)
	case fltNotReading:
		// the client stops reading: its handler stays blocked inside Write
		vConnSet(c1, "writeBlock", true)
		vConnFeed(c1, vWire(refEnvelope(1, refDeleteOp(), nil)))
		vConnFeedBlock(c1)
	}
	vConnFeed(c2, vWire(refEnvelope(1, refDeleteOp(), nil)))
	vConnFeedBlock(c2) // the bystander stays connected
	vEnvAccept(c1)
	if fault == fltAcceptTemp {
		vEnvAcceptTempErr()
	}
	if fault == fltSilentTLSPeer {
		v.goRun(WithTLSConfig(vTLSConfig()))
	} else {
		v.goRun()
	}
	vQuiesce()
	vAssertE(vCrashed() == 0, "no goroutine dies with an unrecovered panic")
	vAssertE(!v.ranRun, "Run keeps running after the fault")
	// a new client connects after the fault and is served correctly
	vEnvAccept(c2)
	vQuiesce()
	vAssertE(vCrashed() == 0, "no goroutine dies with an unrecovered panic (bystander phase)")
	vAssertE(!v.ranRun, "Run still accepts after the fault")
	mu.Lock()
	byst := 0
	for k, n := range served {
		if k != "1" {
			byst += n
		}
	}
	vAssertE(byst == 1, "the bystander connection is accepted and receives its response")
	mu.Unlock()
	vGateOpen(slow)
	vQuiesce()
	vAssertE(vConnWrites(c2) == 1, "exactly one response frame reaches the bystander")
	if vConnWrites(c2) >= 1 {
		if p := ber.DecodePacket(vConnWriteN(c2, 0)); p != nil && len(p.Children) >= 1 {
			gotID, _ := p.Children[0].Value.(int64)
			vAssertE(gotID == 1, "the bystander receives the answer to its own request")
		}
	}
	vAssertE(vConnClosed(c2) == 0, "the bystander connection stays open")
	if fault != fltAcceptTemp && fault != fltHandlerPanic && fault != fltNotReading && fault != fltSilentTLSPeer {
		vAssertE(vConnClosed(c1) == 1, "the faulty connection is closed")
	}
	if fault == fltHandlerPanic {
		mu.Lock()
		vAssertE(served["1"] == 1, "other requests of the connection whose handler panicked are still answered")
		mu.Unlock()
	}
	vReach("faults")
}

// C09: connection IDs are unique, positive and stable.
func H_C09_ids()  { vIDs(1) }
func H_C09_ids3() { vIDs(2) }

// two connections whose set-up overlaps: spawn-order choices for the connection
// goroutines plus one preemption at any synchronisation point (lock, wait group,
// atomic operation) — two fixed connections with one request each
func H_C09_overlap() { vOverlap = true; vIDs(1) }

var vOverlap bool

func init() { vReg("H_C09_overlap", H_C09_overlap) }

func init() { vReg("H_C09_acceptstep", H_C09_acceptstep) }

// Inductive step of the accept loop: after any number p of earlier connections (the
// loop's counter starts from an arbitrary value), the next connection gets the ID p+1,
// its requests and OnClose report it, and Run goes on accepting.
func H_C09_acceptstep() {
	p := vInt("earlierConnections")
	vAssume(p >= 0 && p < 1<<62)
	vLoopInit("(*github.com/jimlambrt/gldap.Server).Run", "connID", p)
	v := vNewSrv()
	seen := -1
	vAssume(v.mux.Delete(func(w *ResponseWriter, r *Request) { seen = r.ConnectionID() }) == nil)
	nc := vNetConn("c1")
	vConnFeed(nc, vWire(refEnvelope(1, refDeleteOp(), nil)))
	vEnvAccept(nc)
	v.goRun()
	vQuiesce()
	vAssertE(!v.ranRun, "Run keeps accepting after the connection")
	vAssertE(seen == p+1 && seen > 0, "the connection after p earlier ones has the ID p+1")
	v.mu.Lock()
	vAssertE(len(v.closes) == 1 && v.closes[0] == p+1, "OnClose reports that ID")
	v.mu.Unlock()
	v.goStop()
	vQuiesce()
	vAssertE(v.ranRun && v.runErr == nil, "Run returns nil after Stop")
	vAssertE(v.ranStop && vConnClosed(nc) == 1, "when Stop and Run have returned the accepted connection has been closed (once)")
	v.mu.Lock()
	vAssertE(len(v.closes) == 1, "and reported via OnClose (once)")
	v.mu.Unlock()
	vReach("accept step")
}

func vIDs(extra int) {
	vSchedFork(1)
	if vOverlap {
		vPreemptBudget(1)
	}
	if extra > 1 || vOverlap {
		// three connections: only the connection goroutine's spawn order is explored
		// (that is the one that separates the per-iteration copy from the loop variable)
		vSchedFilter("(*github.com/jimlambrt/gldap.Server).Run$1")
	}
	v := vNewSrv()
	var mu sync.Mutex
	seen := map[string][]int{} // conn name (by message id) -> ConnectionIDs reported
	hf := func(w *ResponseWriter, r *Request) {
		mu.Lock()
		k := fmt.Sprint(r.message.GetID() / 10)
		seen[k] = append(seen[k], r.ConnectionID())
		mu.Unlock()
	}
	vAssume(v.mux.Delete(hf) == nil)
	K := 2
	if !vOverlap {
		K = 1 + vLen("extraConns", extra)
	}
	conns := []string{"c1", "c2", "c3"}
	var ncs []interface{}
	for i := 0; i < K; i++ {
		nc := vNetConn(conns[i])
		nreq := 1
		if !vOverlap {
			nreq = 1 + vLen(fmt.Sprintf("extraReq%d", i), 1)
		}
		for j := 0; j < nreq; j++ {
			vConnFeed(nc, vWire(refEnvelope(int64(10*(i+1)+j), refDeleteOp(), nil)))
		}
		if !vOverlap && i < 2 && vBool(fmt.Sprintf("idle%d", i)) {
			vConnFeedBlock(nc) // stays connected while later clients arrive
		}
		if !vOverlap && i > 0 && i < 3-extra+1 && vBool(fmt.Sprintf("acceptErrorBefore%d", i)) {
			vEnvAcceptTempErr() // e.g. out of descriptors: Accept fails once, then works again
		}
		vEnvAccept(nc)
		ncs = append(ncs, nc)
	}
	v.goRun()
	vQuiesce()
	v.goStop()
	vQuiesce()
	mu.Lock()
	defer mu.Unlock()
	used := map[int]bool{}
	for i := 0; i < K; i++ {
		ids := seen[fmt.Sprint(i+1)]
		vAssertE(len(ids) >= 1, "every connection's requests were served")
		for _, id := range ids {
			vAssertE(id == ids[0], "all requests of one connection report the same ConnectionID")
			vAssertE(id > 0, "ConnectionID is positive")
		}
		if len(ids) > 0 {
			vAssertE(!used[ids[0]], "no two connections share an ID")
			used[ids[0]] = true
		}
	}
	v.mu.Lock()
	vAssertE(len(v.closes) == K, "OnClose once per connection")
	closed := map[int]bool{}
	for _, id := range v.closes {
		vAssertE(used[id] && !closed[id], "OnClose receives exactly the IDs the connections' requests reported")
		closed[id] = true
	}
	v.mu.Unlock()
	vReach("ids")
}

const (
	stNone = iota
	stIdle
	stTLSPending
	stPipelining
	stNotReading
	stMidStreamNotReading
	stSlowHandlerWindowFull
	stAcceptedWhileStopping
	stKinds
)

func init() { vReg("H_C05_partial", H_C05_partial) }

// C05 with a write timeout configured: a response larger than what the client takes in
// time is cut off by the deadline after part of it was sent.  From then on the stream is
// torn, so no later Write on that connection may report success (the client could not
// delimit its frame).
func H_C05_partial() {
	v := vNewSrv(WithWriteTimeout(time.Second))
	var mu sync.Mutex
	var results []bool // success of each Write, in the order they were made
	big := make([]byte, 20000)
	for i := range big {
		big[i] = byte('a' + i%26)
	}
	vAssume(v.mux.Delete(func(w *ResponseWriter, r *Request) {
		diag := "ok"
		if r.message.GetID() == 1 {
			diag = string(big)
		}
		err := w.Write(r.NewResponse(WithResponseCode(ResultSuccess), WithDiagnosticMessage(diag)))
		mu.Lock()
		results = append(results, err == nil)
		mu.Unlock()
	}) == nil)
	nc := vNetConn("c1")
	vConnSet(nc, "partialWrites", true)
	vConnFeed(nc, vWire(refEnvelope(1, refDeleteOp(), nil)))
	vConnFeed(nc, vWire(refEnvelope(2, refDeleteOp(), nil)))
	vConnFeedBlock(nc)
	vEnvAccept(nc)
	v.goRun()
	vQuiesce()
	mu.Lock()
	failed := false
	for _, ok := range results {
		if failed {
			vAssertE(!ok, "after a Write that failed in the middle of its frame no later Write on the connection succeeds")
		}
		if !ok {
			failed = true
		}
	}
	mu.Unlock()
	v.goStop()
	vQuiesce()
	vReach("partial")
}

func init() { vReg("H_C11_startrace", H_C11_startrace) }

// C11 / C12: Stop racing with Run's start-up (no connections): every spawn order plus one
// preemption at any synchronisation point; both return, Run with nil, nothing stays bound.
func H_C11_startrace() {
	vSchedFork(1)
	vPreemptBudget(1 + vLen("extraPreemption", 1))
	v := vNewSrv()
	if vBool("stopFirst") {
		v.goStop()
		v.goRun()
	} else {
		v.goRun()
		v.goStop()
	}
	vQuiesce()
	vAssertE(v.ranStop, "Stop returns")
	vAssertE(v.ranRun && v.runErr == nil, "Run returns nil once the server was stopped")
	vAssertE(vEnvListenerOpen() == 0, "no listening socket is left open")
	vReach("start race")
}

// C11: Stop returns whatever clients are doing; Run then returns nil.
func H_C11_stop() {
	state := vLen("state", stKinds-1)
	withReadTimeout := vBool("readTimeout")
	var opts []Option
	if withReadTimeout {
		opts = append(opts, WithReadTimeout(time.Second))
	}
	v := vNewSrv(opts...)
	hgate := vGate("slow handler")
	vAssume(v.mux.Delete(func(w *ResponseWriter, r *Request) {
		if state == stSlowHandlerWindowFull {
			vGateWait(hgate)
		}
		_ = w.Write(r.NewResponse(WithResponseCode(ResultSuccess)))
	}) == nil)
	var runOpts []Option
	nc := vNetConn("c1")
	switch state {
	case stSlowHandlerWindowFull:
		// a slow handler is still running when Stop arrives between two requests; the
		// client does not read and its window has room for one more frame only (the
		// notice of disconnection or the handler's response, whichever is written first)
		vConnSet(nc, "writeBlockAfter1", true)
		vConnFeed(nc, vWire(refEnvelope(1, refDeleteOp(), nil)))
		vConnFeedCall(nc, func() { v.goStop() })
		vConnFeed(nc, vWire(refEnvelope(2, refDeleteOp(), nil)))
		vConnFeedBlock(nc)
		vEnvAccept(nc)
	case stIdle:
		vConnFeedBlock(nc)
		vEnvAccept(nc)
	case stTLSPending:
		runOpts = append(runOpts, WithTLSConfig(vTLSConfig()))
		vConnSet(nc, "tlsPending", true)
		vEnvAccept(nc)
	case stPipelining:
		for i := 0; i < 3; i++ {
			vConnFeed(nc, vWire(refEnvelope(int64(i+1), refDeleteOp(), nil)))
		}
		vConnFeedBlock(nc)
		vEnvAccept(nc)
	case stNotReading:
		vConnSet(nc, "writeBlock", true)
		vConnFeed(nc, vWire(refEnvelope(1, refDeleteOp(), nil)))
		vConnFeedBlock(nc)
		vEnvAccept(nc)
	}
	// closing the socket may fail (e.g. a TLS client that reset the connection: the
	// close-notify cannot be written); Stop must return all the same
	if state != stNone {
		vConnSet(nc, "closeErr", vBool("closeFails"))
	}
	switch state {
	case stAcceptedWhileStopping:
		// Stop arrives while Accept is in progress and the kernel had just completed a
		// client's connection: Accept still returns it
		vEnvSet("acceptRace", true)
		vEnvAcceptCall(func() { v.goStop() })
		vConnFeedBlock(nc)
		vEnvAccept(nc)
	case stMidStreamNotReading:
		// a pipelining client that never reads its responses; Stop arrives between two
		// of its requests (the read loop takes its shutdown branch), handlers still
		// have responses to write afterwards
		vConnSet(nc, "writeBlock", true)
		vConnFeed(nc, vWire(refEnvelope(1, refDeleteOp(), nil)))
		vConnFeedCall(nc, func() { v.goStop() })
		vConnFeed(nc, vWire(refEnvelope(2, refDeleteOp(), nil)))
		vConnFeedBlock(nc)
		vEnvAccept(nc)
	}
	v.goRun(runOpts...)
	vQuiesce()
	if state != stMidStreamNotReading && state != stSlowHandlerWindowFull && state != stAcceptedWhileStopping {
		v.goStop()
	}
	second := vBool("secondStop")
	if second {
		go func() {
			_ = v.s.Stop()
			vEvent("Stop2.return")
		}()
	}
	vQuiesce()
	vGateOpen(hgate) // the slow handlers carry on (no client action)
	vQuiesce()
	vAssertE(v.ranStop, "Stop returns without any client action")
	vAssertE(v.ranRun && v.runErr == nil, "Run returns nil after Stop")
	if second {
		vAssertE(vEvents("h:Stop2.return", "") == 1, "a concurrent second Stop returns too")
	}
	vReach("stopped")
}

const (
	ordBeforeRun = iota
	ordAfterListen
	ordAfterAccept
	ordDuringTraffic
	ordKinds
)

// C12: when Stop and Run have both returned the server is quiescent.
func H_C12_orders() {
	vSchedFork(1)
	order := vLen("order", ordKinds-1)
	v := vNewSrv()
	hgate, cgate := vGate("handler"), vGate("onclose")
	slowOnClose := vBool("slowOnClose")
	// replace the recorder by one that can be slow
	v.s.onCloseHandler = func(id int) {
		vEvent("OnClose.enter", id)
		if slowOnClose {
			vGateWait(cgate)
		}
		v.mu.Lock()
		v.closes = append(v.closes, id)
		v.mu.Unlock()
		vEvent("OnClose.exit", id)
	}
	slowHandler := vBool("slowHandler")
	vAssume(v.mux.Delete(func(w *ResponseWriter, r *Request) {
		vEvent("handler.enter", r.ID)
		if slowHandler {
			vGateWait(hgate)
		}
		_ = w.Write(r.NewResponse(WithResponseCode(ResultSuccess)))
		vEvent("handler.exit", r.ID)
	}) == nil)
	nc := vNetConn("c1")
	vConnFeed(nc, vWire(refEnvelope(1, refDeleteOp(), nil)))
	if vBool("clientNotReading") {
		vConnSet(nc, "writeBlock", true)
	}
	if vBool("closeFails") {
		vConnSet(nc, "closeErr", true)
	}
	twice := vBool("stopTwice")
	switch order {
	case ordBeforeRun:
		vAssertE(v.s.Stop() == nil, "Stop before Run is harmless")
		vEvent("Stop.return")
		v.ranStop = true
		vEnvAccept(nc)
		v.goRun()
	case ordAfterListen:
		// Stop arrives while Accept is in progress; the kernel may have completed the
		// client's connection just before the listener was closed (Accept returns it)
		vEnvSet("acceptRace", vBool("acceptedJustBeforeClose"))
		vEnvAcceptCall(func() { v.goStop() })
		vEnvAccept(nc)
		v.goRun()
	case ordAfterAccept:
		vEnvAccept(nc)
		v.goRun()
		v.goStop()
	case ordDuringTraffic:
		vEnvAccept(nc)
		v.goRun()
		vQuiesce()
		v.goStop()
	}
	vQuiesce()
	vGateOpen(hgate)
	vGateOpen(cgate)
	vQuiesce()
	if twice {
		vAssertE(v.s.Stop() == nil, "calling Stop again is harmless")
	}
	vAssertE(v.ranStop, "Stop returned")
	vAssertE(v.ranRun && v.runErr == nil, "Run returned nil")
	vAssertE(vEnvListenerOpen() == 0, "the listening socket is closed once Stop and Run have returned")
	vAssertE(vEnvListeners() == 1, "Run listened once")
	vAssertE(vBlockedThreads() == 0, "no goroutine is left")
	v.mu.Lock()
	vAssertE(len(v.closes) == vEvents("accept", "c1"), "every accepted connection was reported via OnClose")
	v.mu.Unlock()
	vAssertE(vConnClosed(nc) == vEvents("accept", "c1"), "every accepted connection was closed")
	vReach("orders")
}

// C17: Ready is true only while the server is really listening.
func H_C17_ready() {
	vSchedFork(1)
	// a server with read / write timeouts, and a client that connects long after Run started
	// (longer than the timeouts): it is served like any other
	withTimeouts := vBool("withTimeoutsAndLateClient")
	var srvOpts []Option
	if withTimeouts {
		srvOpts = append(srvOpts, WithReadTimeout(time.Second), WithWriteTimeout(time.Second))
	}
	v := vNewSrv(srvOpts...)
	addrs := []string{"127.0.0.1:10389", "[::1]:10389", "localhost:10389", ":10389", "::1:10389", "127.0.0.1", "[::1]", "[::1:10389", "300.1.1.1:389", "127.0.0.1:", "127.0.0.1:65536", "127.0.0.1:-1"}
	// the address the server must be listening on when Ready() is true ("" = Run must fail:
	// no port, malformed, or a port outside 0..65535)
	wantListen := []string{"127.0.0.1:10389", "[::1]:10389", "localhost:10389", ":10389", "[::1]:10389", "", "", "", "", "", "", ""}
	ai := vLen("addr", len(addrs)-1)
	vAssume(!withTimeouts || ai == 0)
	vEnvSet("listenErr", vBool("listenFails"))
	resolves := vBool("hostResolves")
	vEnvSet("resolves", resolves)
	if resolves {
		wantListen[8] = addrs[8] // with a resolver that answers for it, "300.1.1.1" is a host name
	}
	nc := vNetConn("c1")
	vConnFeed(nc, vWire(refEnvelope(1, refDeleteOp(), nil)))
	served := false
	tlsWanted := false
	vAssume(v.mux.Delete(func(w *ResponseWriter, r *Request) {
		if r.message.GetID() == 1 {
			served = true // the probing client's request (earlier connections use other message IDs)
		}
		if tlsWanted {
			vAssertE(vTLSConfigOf(r.conn.netConn) != nil, "with a TLS configuration a handler runs only on a TLS connection")
		}
	}) == nil)
	// the address may be taken for a moment when Run starts (only the first attempt to listen fails)
	vEnvSet("listenBusyOnce", vBool("addressBrieflyInUse"))
	polled := vLen("polls", 2)
	for i := 0; i < polled; i++ {
		go func() {
			r := v.s.Ready()
			vEvent("ready", r)
			if r {
				// from the moment Ready() == true is observed (until Stop) the socket is bound
				vAssertE(vEnvListenerOpen() == 1, "Ready() == true only while the listening socket is bound")
			}
		}()
	}
	var runOpts []Option
	withTLS := vBool("withTLS")
	if withTLS {
		tlsWanted = true
		runOpts = append(runOpts, WithTLSConfig(vTLSConfig()))
	}
	go func() {
		v.runErr = v.s.Run(addrs[ai], runOpts...)
		v.ranRun = true
		vEvent("Run.return")
	}()
	vQuiesce()
	if v.ranRun {
		// Run could not validate the address or listen
		vAssertE(v.runErr != nil, "Run returns an error when it cannot listen")
		vAssertE(!v.s.Ready(), "Ready never becomes true when Run fails")
		vAssertE(vEnvListenerOpen() == 0, "nothing is left listening")
		vReach("run failed")
	} else {
		vAssertE(v.s.Ready(), "Ready is true once Run is accepting")
		vAssertE(vEnvListenerOpen() == 1, "listening")
		vAssertE(wantListen[ai] != "" && vEnvListenAddr() == wantListen[ai], "Ready() is true only while the server listens on the address Run was given")
		if vBool("acceptErrorFirst") {
			vEnvAcceptTempErr() // a connection attempt that hits descriptor exhaustion; the next one must be served
		}
		var og *vGateT
		if !withTLS && ai == 0 && polled == 0 && vBool("slowOnCloseOfEarlierConnection") {
			// an earlier connection has ended and the application's OnClose callback for it is
			// still running (slow, or itself waiting for something): new clients are served meanwhile
			og = vGate("slow OnClose")
			v.s.onCloseHandler = func(id int) { vGateWait(og) }
			c0 := vNetConn("c0")
			vConnFeed(c0, vWire(refEnvelope(9, refDeleteOp(), nil)))
			vEnvAccept(c0)
			vQuiesce()
		}
		if withTLS && vBool("silentPeerFirst") {
			// another peer connected just before and never sends its ClientHello
			// (no timeouts are configured): it must not keep later clients from being served
			c0 := vNetConn("c0")
			vConnSet(c0, "tlsPending", true)
			vEnvAccept(c0)
		}
		if withTimeouts {
			vTimePasses()
		}
		vEnvAccept(nc)
		vQuiesce()
		vAssertE(served, "a connection attempt made while Ready() is true is served")
		if og != nil {
			vGateOpen(og)
		}
		v.goStop()
		vQuiesce()
		vAssertE(v.ranRun && v.runErr == nil, "Run returns nil after Stop")
		vReach("run ok")
	}
}

func init() { vReg("H_C18_tls", H_C18_tls) }

const (
	cliGood      = iota // completes a handshake satisfying the config
	cliFails            // plaintext LDAP / arbitrary bytes / no or wrong certificate: the handshake fails
	cliAbandons         // connects and never sends a ClientHello
	cliKinds
)

// C18: with a TLS configuration only clients inside a completed TLS session
// satisfying it reach a handler (gldap-owned obligations O1-O3).
func H_C18_tls() {
	vSchedFork(1)
	withTLS := vBool("withTLSConfig")
	mtls := withTLS && vBool("requireClientCert")
	cfg := vTLSConfig()
	src := 0
	if withTLS {
		src = vLen("certSource", 2)
	}
	// where the server certificate comes from: a static list, a per-handshake
	// callback, or a per-client configuration callback
	switch src {
	case 0:
		cfg.Certificates = []tls.Certificate{{}}
	case 1:
		cfg.GetCertificate = func(*tls.ClientHelloInfo) (*tls.Certificate, error) { return &tls.Certificate{}, nil }
	default:
		inner := &tls.Config{MinVersion: tls.VersionTLS12, Certificates: []tls.Certificate{{}}}
		cfg.GetConfigForClient = func(*tls.ClientHelloInfo) (*tls.Config, error) { return inner, nil }
	}
	if mtls {
		cfg.ClientAuth = tls.RequireAndVerifyClientCert
		cfg.ClientCAs = x509.NewCertPool()
	}
	v := vNewSrv(WithReadTimeout(time.Second))
	var mu sync.Mutex
	handled := map[string]int{}
	hf := func(w *ResponseWriter, r *Request) {
		mu.Lock()
		handled[fmt.Sprint(r.ConnectionID())]++
		mu.Unlock()
		if withTLS {
			got := vTLSConfigOf(r.conn.netConn)
			vAssertE(got != nil, "a handler runs only on a TLS connection when a TLS configuration is given")
			if got != nil {
				vAssertE(got == cfg || (got.ClientAuth == cfg.ClientAuth && got.ClientCAs == cfg.ClientCAs && got.MinVersion == cfg.MinVersion &&
					got.InsecureSkipVerify == cfg.InsecureSkipVerify && len(got.Certificates) == len(cfg.Certificates) && (got.GetConfigForClient == nil) == (cfg.GetConfigForClient == nil) &&
					(got.GetCertificate == nil) == (cfg.GetCertificate == nil) && got.VerifyPeerCertificate == nil),
					"the connection's TLS configuration is the one given to Run (or a copy with the same security-relevant fields)")
			}
			vAssertE(vConnLayer(r.conn.reader) == "reader(tls(raw("+vConnName(r)+")))", "requests are read through the TLS connection over the accepted socket")
			vAssertE(vConnLayer(w.writer) == "writer(tls(raw("+vConnName(r)+")))", "responses are written through the TLS connection")
		}
		_ = w.Write(r.NewResponse(WithResponseCode(ResultSuccess)))
	}
	vAssume(v.mux.Delete(hf) == nil && v.mux.DefaultRoute(hf) == nil && v.mux.Bind(hf) == nil)
	// client 1 behaves in a symbolic way, client 2 conforms
	behaviour := vLen("client1", cliKinds-1)
	c1, c2 := vNetConn("c1"), vNetConn("c2")
	switch behaviour {
	case cliGood:
		vConnSet(c1, "tlsOK", true)
	case cliFails:
		vConnSet(c1, "tlsOK", false)
		// plaintext LDAP sent to the TLS port (crypto/tls reports a record header error
		// carrying the raw connection) or a failed negotiation (bad / missing certificate)
		vConnSet(c1, "plaintextClient", vBool("client1SpeaksPlaintext"))
	case cliAbandons:
		vConnSet(c1, "tlsPending", true)
	}
	vConnFeed(c1, vWire(refEnvelope(1, refDeleteOp(), nil))) // what the client would like to get served
	vConnFeed(c1, vWire(refEnvelope(2, refApp(ApplicationBindRequest, refInt(3), refOctet("cn=u"), refCtxPrim(0, "pw")), nil)))
	vConnSet(c2, "tlsOK", true)
	vConnFeed(c2, vWire(refEnvelope(1, refDeleteOp(), nil)))
	vEnvAccept(c1)
	vEnvAccept(c2)
	var runOpts []Option
	if withTLS {
		runOpts = append(runOpts, WithTLSConfig(cfg))
	}
	v.goRun(runOpts...)
	vQuiesce()
	mu.Lock()
	if withTLS && behaviour != cliGood {
		vAssertE(handled["1"] == 0, "no handler runs for a client that did not complete a satisfying handshake")
	} else {
		vAssertE(handled["1"] == 2, "a conforming client is served")
	}
	vAssertE(handled["2"] == 1, "a conforming client on another connection is served regardless")
	mu.Unlock()
	vAssertE(vConnClosed(c1) == 1, "the attempt ends (only) its own connection")
	v.goStop()
	vQuiesce()
	vAssertE(v.ranRun && v.runErr == nil && v.ranStop, "server stops normally")
	vReach("tls")
}

func vConnName(r *Request) string { return fmt.Sprintf("c%d", r.ConnectionID()) }

func init() { vReg("H_C15_server", H_C15_server) }

// C15: no data race on state owned by gldap (server, mux, connections) in a
// workload with pipelined requests, concurrent writes, a StartTLS upgrade,
// Stop and Ready callers and connection teardown.  The recorded accesses are
// handed to the partial-order layer (race queries).
func H_C15_server() {
	// two base schedules (child-first / spawner-first); the partial-order layer
	// quantifies over all consistent reorderings of each recorded trace
	if vBool("lateSchedule") {
		vLateSched()
	}
	v := vNewSrv()
	vTrack(v.s, "server")
	vTrack(v.mux, "mux")
	var mu sync.Mutex
	tracked := map[int]bool{}
	hf := func(w *ResponseWriter, r *Request) {
		mu.Lock()
		if !tracked[r.ConnectionID()] {
			tracked[r.ConnectionID()] = true
			vTrack(r.conn, fmt.Sprintf("conn%d", r.ConnectionID()))
		}
		mu.Unlock()
		_ = w.Write(r.NewResponse(WithResponseCode(ResultSuccess)))
	}
	vAssume(v.mux.Delete(hf) == nil && v.mux.Add(hf) == nil)
	vAssume(v.mux.ExtendedOperation(func(w *ResponseWriter, r *Request) {
		_ = w.Write(r.NewExtendedResponse(WithResponseCode(ResultSuccess)))
		_ = r.StartTLS(vTLSConfig())
	}, ExtendedOperationStartTLS) == nil)
	c1, c2 := vNetConn("c1"), vNetConn("c2")
	vConnSet(c1, "tlsOK", true)
	vConnFeed(c1, vWire(refEnvelope(1, refDeleteOp(), nil)))
	if vBool("upgrade") {
		vConnFeed(c1, vWire(refEnvelope(2, refStartTLSOp(), nil)))
	}
	vConnFeed(c1, vWire(refEnvelope(3, refDeleteOp(), nil)))
	vConnFeed(c2, vWire(refEnvelope(1, refDeleteOp(), nil)))
	if vBool("unroutedRequests") {
		// requests no route matches (and no default route): gldap answers them itself, on both connections
		vConnFeed(c1, vWire(refEnvelope(4, refApp(ApplicationModifyRequest, refOctet("cn=u"), refSeq()), nil)))
		vConnFeed(c2, vWire(refEnvelope(2, refApp(ApplicationModifyRequest, refOctet("cn=u"), refSeq()), nil)))
	}
	if vBool("clientsStayConnected") {
		// both clients idle at Stop time: the shutdown paths of live connections run
		vConnFeedBlock(c1)
		vConnFeedBlock(c2)
	}
	vEnvAccept(c1)
	vEnvAccept(c2)
	go func() { vEvent("ready", v.s.Ready()) }()
	v.goRun()
	go func() { vEvent("ready", v.s.Ready()) }()
	if vBool("earlyStop") {
		v.goStop()
	}
	vQuiesce()
	v.goStop()
	vQuiesce()
	vAssertE(v.ranRun && v.ranStop, "workload completes")
	vReach("workload")
}

func init() { vReg("H_C13_stop_upgraded", H_C13_stop_upgraded) }

// C13: a connection upgraded with StartTLS stays TLS-protected to its end. After the
// upgrade the client either goes idle or sends another request; then the server is
// stopped. Whatever the server sends after the StartTLS response (answers, the notice
// of disconnection) travels through the TLS connection; nothing is written on the
// accepted socket underneath it.
func H_C13_stop_upgraded() {
	vSchedFork(1)
	v := vNewSrv()
	cfg := &tls.Config{MinVersion: tls.VersionTLS12}
	nc := vNetConn("c1")
	var startErr error
	vAssume(v.mux.ExtendedOperation(func(w *ResponseWriter, r *Request) {
		_ = w.Write(r.NewExtendedResponse(WithResponseCode(ResultSuccess)))
		startErr = r.StartTLS(cfg)
	}, ExtendedOperationStartTLS) == nil)
	vAssume(v.mux.Delete(func(w *ResponseWriter, r *Request) {
		_ = w.Write(r.NewResponse(WithResponseCode(ResultSuccess)))
	}) == nil)
	vConnFeed(nc, vWire(refEnvelope(1, refStartTLSOp(), nil)))
	after := vLen("requestsInsideTheTunnel", 1)
	for i := 0; i < after; i++ {
		vConnFeed(nc, vWire(refEnvelope(int64(i+2), refDeleteOp(), nil)))
	}
	vConnFeedBlock(nc) // then the client is idle
	v.goRun()
	vQuiesce()
	vEnvAccept(nc)
	vQuiesce()
	vAssertE(startErr == nil, "the upgrade succeeds")
	v.goStop()
	vQuiesce()
	vAssertE(v.ranStop && v.ranRun, "Stop and Run return")
	total := vConnWrites(nc)
	vAssertE(total >= 1+after, "the StartTLS response and every answer were written")
	for i := 1; i < total; i++ {
		vAssertE(vConnWriteLayer(nc, i) == "tls", "after the upgrade every byte the server sends travels through the TLS connection")
	}
	vReach("stopped after upgrade")
}
