//go:build verif

package gldap

import (
	"fmt"
	"sync"
	"time"

	ber "github.com/go-asn1-ber/asn1-ber"
)

func init() {
	vReg("H_C08_endings", H_C08_endings)
}

// vServer builds a Server through the public API with an OnClose recorder.
type vSrv struct {
	s       *Server
	mux     *Mux
	mu      sync.Mutex
	closes  []int
	runErr  error
	stopErr error
	ranRun  bool
	ranStop bool
}

func vNewSrv(opts ...Option) *vSrv {
	v := &vSrv{mux: vMux()}
	all := append([]Option{WithLogger(vLogger()), WithOnClose(func(id int) {
		vEvent("OnClose.enter", id)
		v.mu.Lock()
		v.closes = append(v.closes, id)
		v.mu.Unlock()
		vEvent("OnClose.exit", id)
	})}, opts...)
	s, err := NewServer(all...)
	vAssume(err == nil)
	v.s = s
	vAssume(s.Router(v.mux) == nil)
	return v
}

func (v *vSrv) goRun(opts ...Option) {
	go func() {
		v.runErr = v.s.Run("127.0.0.1:10389", opts...)
		v.ranRun = true
		vEvent("Run.return")
	}()
}

func (v *vSrv) goStop() {
	go func() {
		v.stopErr = v.s.Stop()
		v.ranStop = true
		vEvent("Stop.return")
	}()
}

func refMalformed(id int64) *ber.Packet {
	// an envelope with a single child: fails basic validation
	p := refSeq()
	p.AppendChild(refInt(id))
	return vWire(p)
}

func refUnsupported(id int64) *ber.Packet {
	return vWire(refEnvelope(id, refApp(ApplicationCompareRequest, refOctet("cn=u")), nil))
}

const (
	endEOF = iota
	endReset
	endUnbind
	endMalformed
	endUnsupported
	endTimeout
	endInlinePanic
	endStop
	endDeadlineErr
	endKinds
)

// C08(a): however a connection ends, the socket is closed once and OnClose is
// called once with its ID, after the handlers still running have returned.
func H_C08_endings() {
	vSchedFork(1) // every spawn: child first or spawner first
	ending := vLen("ending", endKinds-1)
	var opts []Option
	if ending == endTimeout || ending == endDeadlineErr {
		opts = append(opts, WithReadTimeout(time.Second))
	}
	v := vNewSrv(opts...)
	nc := vNetConn("c1")
	inflight := vLen("inflight", 2)
	gates := []*vGateT{vGate("h1"), vGate("h2")}
	var mu sync.Mutex
	running, finished := 0, 0
	hf := func(w *ResponseWriter, r *Request) {
		mu.Lock()
		running++
		mu.Unlock()
		vEvent("handler.enter", r.ID)
		if r.ID <= 2 {
			vGateWait(gates[r.ID-1])
		}
		_ = w.Write(r.NewResponse(WithResponseCode(ResultSuccess)))
		vEvent("handler.exit", r.ID)
		mu.Lock()
		running--
		finished++
		mu.Unlock()
	}
	vAssume(v.mux.Delete(hf) == nil)
	vAssume(v.mux.ExtendedOperation(func(w *ResponseWriter, r *Request) { panic("handler panic on the read loop") }, ExtendedOperationStartTLS) == nil)
	if vBool("unbindRoute") {
		vAssume(v.mux.Unbind(func(w *ResponseWriter, r *Request) {}) == nil)
	}
	for i := 0; i < inflight; i++ {
		vConnFeed(nc, vWire(refEnvelope(int64(i+1), refDeleteOp(), nil)))
	}
	id := int64(inflight + 1)
	switch ending {
	case endEOF:
		vConnFeedEOF(nc)
	case endReset:
		vConnFeedErr(nc, "read: connection reset by peer")
	case endUnbind:
		vConnFeed(nc, vWire(refEnvelope(id, refUnbindOp(), nil)))
	case endMalformed:
		vConnFeed(nc, refMalformed(id))
	case endUnsupported:
		vConnFeed(nc, refUnsupported(id))
	case endTimeout:
		vConnFeedBlock(nc)
	case endInlinePanic:
		vConnFeed(nc, vWire(refEnvelope(id, refStartTLSOp(), nil)))
	case endStop:
		vConnFeedCall(nc, func() { v.goStop() })
		vConnFeed(nc, vWire(refEnvelope(id, refDeleteOp(), nil)))
	case endDeadlineErr:
		vConnSet(nc, "deadlineErr", true)
	}
	vEnvAccept(nc)
	v.goRun()
	vQuiesce()
	// handlers still blocked: the connection must not be closed nor reported yet
	mu.Lock()
	stillRunning := running
	mu.Unlock()
	if stillRunning > 0 {
		vAssertE(vConnClosed(nc) == 0, "socket is not closed while a handler of the connection is running")
		v.mu.Lock()
		vAssertE(len(v.closes) == 0, "OnClose is not called while a handler of the connection is running")
		v.mu.Unlock()
	}
	vGateOpen(gates[0])
	vGateOpen(gates[1])
	vQuiesce()
	if ending != endStop {
		v.goStop()
		vQuiesce()
	}
	vAssertE(vConnClosed(nc) == 1, "socket closed exactly once")
	v.mu.Lock()
	vAssertE(len(v.closes) == 1 && v.closes[0] == 1, "OnClose called exactly once with the connection's ID")
	v.mu.Unlock()
	vAssertE(vEventIndex("close", "c1", 0) >= 0 && vEventIndex("close", "c1", 0) < vEventIndex("h:OnClose.enter", "1", 0), "socket is closed before OnClose is called")
	mu.Lock()
	vAssertE(running == 0, "no handler of the connection is left running")
	mu.Unlock()
	vAssertE(vBlockedThreads() == 0, "no goroutine belonging to the connection remains")
	vAssertE(v.ranRun && v.runErr == nil, "Run returned nil after Stop")
	vAssertE(v.ranStop && v.stopErr == nil, "Stop returned")
	vReach("ended")
	_ = fmt.Sprint
}
