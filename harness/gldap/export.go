//go:build verif

package gldap

// Exported doors for harnesses living in other packages (testdirectory):
// they build requests / writers through the real internal constructors and
// expose the harness primitives.

import (
	"crypto/x509"
	"context"
	"crypto/tls"

	ber "github.com/go-asn1-ber/asn1-ber"
)

func VBool(n string) bool                    { return vBool(n) }
func VI64(n string) int64                    { return vI64(n) }
func VStr(n string) string                   { return vStr(n) }
func VLen(n string, max int) int             { return vLen(n, max) }
func VAssume(c bool)                         { vAssume(c) }
func VAssert(c bool, label string)           { vAssert(c, label) }
func VAssertE(c bool, label string)          { vAssertE(c, label) }
func VReach(label string)                    { vReach(label) }
func VReg(name string, f func())             { vReg(name, f) }
func VReplayMain() error                     { return vReplayMain() }
func VEvent(kind string, args ...interface{}) { vEvent(kind, args...) }
func VTrack(p interface{}, name string)      { vTrack(p, name) }
func VTrackElems(s interface{}, name string) { vTrackElems(s, name) }
func VCertPoolSize(p *x509.CertPool) int      { return vCertPoolSize(p) }
func VIssuedSigners() int                     { return vIssuedSigners() }
func VIssuedLeaves() int                      { return vIssuedLeaves() }
func VSchedFork(level int)                   { vSchedFork(level) }
func VQuiesce()                              { vQuiesce() }
func VSummarise(name string)                 { vSummarise(name) }

// VExchange is one request delivered to a handler on a fresh fake connection.
type VExchange struct {
	Req *Request
	W   *ResponseWriter
	nc  interface{}
	c   *conn
}

func vExchange(env *ber.Packet) *VExchange { return vExchangeL(env, false) }

// vExchangeL: the request arrives through the connection's reader; with debug set
// the server's logger is at debug level (gldap pretty-prints the packet first).
func vExchangeL(env *ber.Packet, debug bool) *VExchange { return vExchangeN("x", env, debug) }

func vExchangeN(name string, env *ber.Packet, debug bool) *VExchange {
	nc := vNetConn(name)
	vConnFeed(nc, vWire(env))
	c, err := newConn(context.Background(), 1, nc, vLoggerAt(debug), vMux())
	vAssume(err == nil)
	r, err := c.readRequest(1)
	vAssume(err == nil && r != nil)
	w, err := newResponseWriter(c.writer, &c.writerMu, c.logger, int(c.connID), 1)
	vAssume(err == nil)
	return &VExchange{Req: r, W: w, nc: nc, c: c}
}

func VBindExchange(id int64, dn, pw string) *VExchange { return VBindExchangeL(id, dn, pw, false) }

// VBindExchangeL: debug = the server logs at debug level
func VBindExchangeL(id int64, dn, pw string, debug bool) *VExchange {
	vSummarise("encodeInteger")
	vSummarise("encodeLength")
	x := vExchangeL(refEnvelope(id, refApp(ApplicationBindRequest, refInt(3), refOctet(dn), refCtxPrim(0, pw)), nil), debug)
	vSummarise("-encodeLength")
	vSummarise("-encodeInteger")
	return x
}

func VAddExchange(id int64, dn string, names []string, vals [][]string) *VExchange {
	aseq := refSeq()
	for i, n := range names {
		set := refSet()
		for _, v := range vals[i] {
			set.AppendChild(refOctet(v))
		}
		s := refSeq()
		s.AppendChild(refOctet(n))
		s.AppendChild(set)
		aseq.AppendChild(s)
	}
	return vExchange(refEnvelope(id, refApp(ApplicationAddRequest, refOctet(dn), aseq), nil))
}

func VDeleteExchange(id int64, dn string) *VExchange {
	op := ber.Encode(ber.ClassApplication, ber.TypePrimitive, ApplicationDelRequest, nil, "")
	op.Data.Write([]byte(dn))
	return vExchange(refEnvelope(id, op, nil))
}

func VModifyExchange(id int64, dn string, op int64, typ string, vals []string) *VExchange {
	return VModifyExchangeN(id, dn, []int64{op}, []string{typ}, [][]string{vals})
}

// VModifyExchangeN: one Modify request carrying several changes.
func VModifyExchangeN(id int64, dn string, ops []int64, typs []string, vals [][]string) *VExchange {
	cseq := refSeq()
	for i := range ops {
		set := refSet()
		for _, v := range vals[i] {
			set.AppendChild(refOctet(v))
		}
		mod := refSeq()
		mod.AppendChild(refOctet(typs[i]))
		mod.AppendChild(set)
		ch := refSeq()
		ch.AppendChild(refEnum(ops[i]))
		ch.AppendChild(mod)
		cseq.AppendChild(ch)
	}
	return vExchange(refEnvelope(id, refApp(ApplicationModifyRequest, refOctet(dn), cseq), nil))
}

// VSearchExchange: the request's filter text is set directly (its text is go-ldap's).
func VSearchExchange(id int64, base string, filter string) *VExchange {
	vSummarise("filterOK") // the fixed present-filter below is well formed
	opp := refApp(ApplicationSearchRequest, refOctet(base), refEnum(2), refEnum(0), refInt(0), refInt(0), refBool(false), refCtxPrim(7, "objectClass"), refSeq())
	x := vExchange(refEnvelope(id, opp, nil))
	x.Req.message.(*SearchMessage).Filter = filter
	return x
}

// VResponse is one response frame as a client would decode it.
type VResponse struct {
	ID      int64
	App     int64
	Code    int64
	DN      string // entry DN for search entries
	Attrs   []VAttr
	HasCtrl bool
}
type VAttr struct {
	Name string
	Vals []string
}

// Responses decodes every frame written on the exchange's connection.
func (x *VExchange) Responses() []VResponse {
	nc := x.c.netConn
	var out []VResponse
	n := vConnWrites(nc)
	for i := 0; i < n; i++ {
		p := ber.DecodePacket(vConnWriteN(nc, i))
		if p == nil || len(p.Children) < 2 {
			out = append(out, VResponse{App: -1})
			continue
		}
		r := VResponse{App: int64(p.Children[1].Tag), HasCtrl: len(p.Children) > 2}
		if v, ok := p.Children[0].Value.(int64); ok {
			r.ID = v
		}
		op := p.Children[1]
		if op.Tag == ApplicationSearchResultEntry {
			if len(op.Children) >= 2 {
				r.DN = op.Children[0].Data.String()
				for _, a := range op.Children[1].Children {
					if len(a.Children) >= 2 {
						at := VAttr{Name: a.Children[0].Data.String()}
						for _, v := range a.Children[1].Children {
							at.Vals = append(at.Vals, v.Data.String())
						}
						r.Attrs = append(r.Attrs, at)
					}
				}
			}
		} else if len(op.Children) >= 1 {
			if v, ok := op.Children[0].Value.(int64); ok {
				r.Code = v
			}
		}
		out = append(out, r)
	}
	return out
}

// VServerTLSConfig: the *tls.Config the server's listener was wrapped with (nil if plain).
func VServerTLSConfig(s *Server) *tls.Config { return vTLSConfigOf(s.listener) }

// VServerListening reports whether the server holds a listener.
func VServerListening(s *Server) bool { return s.listener != nil }

// VStartTLSExchange: a StartTLS request on its own connection <name>; with
// pending set the client has not started its handshake yet (Request.StartTLS
// blocks until the connection is closed), otherwise the handshake succeeds.
func VStartTLSExchange(name string, id int64, pending bool) *VExchange {
	x := vExchangeN(name, refEnvelope(id, refStartTLSOp(), nil), false)
	if pending {
		vConnSet(x.c.netConn, "tlsPending", true)
	} else {
		vConnSet(x.c.netConn, "tlsOK", true)
	}
	return x
}

// VNamedBindExchange: a simple bind on its own connection <name>.
func VNamedBindExchange(name string, id int64, dn, pw string) *VExchange {
	return vExchangeN(name, refEnvelope(id, refApp(ApplicationBindRequest, refInt(3), refOctet(dn), refCtxPrim(0, pw)), nil), false)
}

// Close closes the exchange's connection (as the client going away would).
func (x *VExchange) Close() { _ = x.c.netConn.Close() }

// Upgraded reports whether the exchange's connection is now a TLS connection.
func (x *VExchange) Upgraded() bool { return vTLSConfigOf(x.c.netConn) != nil }

func VGo(f func()) { go f() }
