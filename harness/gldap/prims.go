//go:build verif

package gldap

// Harness primitives.  The symbolic engine intercepts every v* function by
// name; the bodies below are the NATIVE semantics used when a solver model is
// replayed against the real build (values come from a JSON file).

import (
	"crypto/x509"
	"bytes"
	"crypto/tls"
	"encoding/base64"
	"encoding/json"
	"errors"
	"fmt"
	"io"
	"net"
	"os"
	"runtime/debug"
	"strconv"
	"sync"
	"time"

	ber "github.com/go-asn1-ber/asn1-ber"
	"github.com/hashicorp/go-hclog"
)

var vHarnesses = map[string]func(){}

func vReg(name string, f func()) { vHarnesses[name] = f }

type vAssertRec struct {
	Label string `json:"label"`
	OK    bool   `json:"ok"`
}

type vCaseResult struct {
	Harness    string       `json:"harness"`
	Asserts    []vAssertRec `json:"asserts"`
	Events     []string     `json:"events"`
	Reached    []string     `json:"reached"`
	Panic      string       `json:"panic,omitempty"`
	PanicStack string       `json:"panic_stack,omitempty"`
	WireReject string       `json:"wire_reject,omitempty"`
	AssumeFail bool         `json:"assume_fail,omitempty"`
	Skipped    bool         `json:"skipped,omitempty"`
}

var (
	vMu     sync.Mutex
	vValues map[string]interface{}
	vCur    *vCaseResult
)

type vStop struct{ why string }

func vLookup(name string) (interface{}, bool) {
	vMu.Lock()
	defer vMu.Unlock()
	v, ok := vValues[name]
	return v, ok
}

func vNum(name string) uint64 {
	v, ok := vLookup(name)
	if !ok {
		return 0
	}
	switch x := v.(type) {
	case string:
		n, _ := strconv.ParseUint(x, 10, 64)
		return n
	case float64:
		return uint64(x)
	case bool:
		if x {
			return 1
		}
	}
	return 0
}

func vBool(name string) bool {
	v, ok := vLookup(name)
	if !ok {
		return false
	}
	b, _ := v.(bool)
	return b
}
func vI64(name string) int64   { return int64(vNum(name)) }
func vU64(name string) uint64  { return vNum(name) }
func vInt(name string) int     { return int(int64(vNum(name))) }
func vU32(name string) uint32  { return uint32(vNum(name)) }
func vU16(name string) uint16  { return uint16(vNum(name)) }
func vU8(name string) uint8    { return uint8(vNum(name)) }
func vBytes(name string) []byte { return []byte(vStr(name)) }

func vStr(name string) string {
	v, ok := vLookup(name)
	if !ok {
		return ""
	}
	s, _ := v.(string)
	if len(s) >= 4 && s[:4] == "enc:" {
		// the encoding of another modelled tree (content re-decoded by the code under test)
		return string(vBuildNode(s[4:], "", 8).Bytes())
	}
	if len(s) >= 4 && s[:4] == "b64:" {
		b, _ := base64.StdEncoding.DecodeString(s[4:])
		return string(b)
	}
	return s
}

func vLen(name string, max int) int {
	n := int(vNum(name))
	if n > max {
		n = max
	}
	return n
}

func vIsEngine() bool           { return false }

// vFoldEq: ASCII case-insensitive equality (reference for strings.EqualFold on ASCII input)
func vFoldEq(a, b string) bool {
	if len(a) != len(b) {
		return false
	}
	for i := 0; i < len(a); i++ {
		x, y := a[i], b[i]
		if x >= 'A' && x <= 'Z' {
			x += 'a' - 'A'
		}
		if y >= 'A' && y <= 'Z' {
			y += 'a' - 'A'
		}
		if x != y {
			return false
		}
	}
	return true
}
func vDump(label string, s string) {}
func vLateSched()               {}
func vRunPending()              { time.Sleep(20 * time.Millisecond) }
func vSummarise(name string)    {}
func vPermute(name string)      {}
func vCrashed() int             { return 0 }
func vLogger() hclog.Logger     { return hclog.NewNullLogger() }

// vLoggerAt: a logger at debug level (gldap then pretty-prints every packet it
// reads and writes) or a silent one.
func vLoggerAt(debug bool) hclog.Logger {
	if !debug {
		return hclog.NewNullLogger()
	}
	return hclog.New(&hclog.LoggerOptions{Name: "verif", Level: hclog.Debug, Output: io.Discard})
}
func vSkipNative() {
	vCur.Skipped = true
	panic(vStop{"skipped"})
}

func vAssume(c bool) {
	if !c {
		vCur.AssumeFail = true
		panic(vStop{"assume"})
	}
}

func vAssert(c bool, label string) {
	vMu.Lock()
	vCur.Asserts = append(vCur.Asserts, vAssertRec{label, c})
	vMu.Unlock()
}

// vAssertE is checked by the engine only (its observable does not exist natively).
func vAssertE(c bool, label string) {}

func vReach(label string) {
	vMu.Lock()
	vCur.Reached = append(vCur.Reached, label)
	vMu.Unlock()
}

func vEvent(kind string, args ...interface{}) {
	vMu.Lock()
	vCur.Events = append(vCur.Events, kind+fmt.Sprint(args...))
	vMu.Unlock()
}

// ---- wire-shaped trees ----

func vNodeName(root, path string) string {
	if path == "" {
		return root
	}
	return root + "/" + path
}

func vBuildNode(root, path string, depth int) *ber.Packet {
	name := vNodeName(root, path)
	if _, ok := vLookup(name + ".class"); !ok {
		// a node the path never looked at: any well-formed node will do (NULL)
		return ber.Encode(ber.ClassUniversal, ber.TypePrimitive, ber.TagNULL, nil, "")
	}
	class := ber.Class(vNum(name + ".class"))
	ttype := ber.Type(vNum(name + ".type"))
	tag := ber.Tag(vNum(name + ".tag"))
	p := ber.Encode(class, ttype, tag, nil, "")
	if ttype == ber.TypeConstructed {
		n := int(vNum(name + ".n"))
		for i := 0; i < n && depth > 0; i++ {
			cp := strconv.Itoa(i)
			if path != "" {
				cp = path + "." + cp
			}
			p.AppendChild(vBuildNode(root, cp, depth-1))
		}
	} else {
		p.Data.Write([]byte(vStr(name + ".data")))
	}
	return p
}

// vPacket returns the tree the real reader produces for the modelled node.
func vPacket(name string, depth int, widths string) *ber.Packet {
	p := vBuildNode(name, "", depth)
	return vWire(p)
}

// vWire is what the real wire reader returns for p's encoding.
func vWire(p *ber.Packet) *ber.Packet {
	if p == nil {
		return nil
	}
	q, err := ber.ReadPacket(bytes.NewReader(p.Bytes()))
	if err != nil {
		vCur.WireReject = err.Error()
		panic(vStop{"wire"})
	}
	return q
}

// ---- connection stub ----

type vFeedItem struct {
	kind string
	data []byte
	err  error
	fn   func()
}

type vFakeConn struct {
	mu        sync.Mutex
	name      string
	feed      []vFeedItem
	pending   []byte
	written   bytes.Buffer
	writes    [][]byte
	closed    int
	writeFail bool
	closeErr  bool
	dlErr     bool
	deadline  bool
	unblock   chan struct{}
}

func (c *vFakeConn) Read(p []byte) (int, error) {
	for {
		c.mu.Lock()
		if c.closed > 0 {
			c.mu.Unlock()
			return 0, errors.New("read: use of closed network connection")
		}
		if len(c.pending) > 0 {
			n := copy(p, c.pending)
			c.pending = c.pending[n:]
			c.mu.Unlock()
			return n, nil
		}
		if len(c.feed) == 0 {
			c.mu.Unlock()
			return 0, io.EOF
		}
		it := c.feed[0]
		c.feed = c.feed[1:]
		switch it.kind {
		case "packet":
			c.pending = it.data
			c.mu.Unlock()
		case "error":
			c.mu.Unlock()
			return 0, it.err
		case "eof":
			c.mu.Unlock()
			return 0, io.EOF
		case "call":
			c.mu.Unlock()
			it.fn()
		case "block":
			dl := c.deadline
			c.mu.Unlock()
			if dl {
				return 0, errors.New("i/o timeout")
			}
			time.Sleep(200 * time.Millisecond)
			c.mu.Lock()
			dl = c.deadline
			c.mu.Unlock()
			if dl {
				return 0, errors.New("i/o timeout")
			}
			return 0, errors.New("verif: blocked read (idle client)")
		}
	}
}

func (c *vFakeConn) Write(p []byte) (int, error) {
	c.mu.Lock()
	defer c.mu.Unlock()
	if c.closed > 0 {
		return 0, errors.New("write: use of closed network connection")
	}
	if c.writeFail {
		return 0, errors.New("write: broken pipe")
	}
	c.written.Write(p)
	c.writes = append(c.writes, append([]byte{}, p...))
	return len(p), nil
}

func (c *vFakeConn) Close() error {
	c.mu.Lock()
	defer c.mu.Unlock()
	c.closed++
	if c.closeErr {
		return errors.New("close: error")
	}
	return nil
}
func (c *vFakeConn) LocalAddr() net.Addr  { return &net.TCPAddr{IP: net.IPv4(127, 0, 0, 1)} }
func (c *vFakeConn) RemoteAddr() net.Addr { return &net.TCPAddr{IP: net.IPv4(127, 0, 0, 1)} }
func (c *vFakeConn) SetDeadline(t time.Time) error {
	return c.SetReadDeadline(t)
}
func (c *vFakeConn) SetReadDeadline(t time.Time) error {
	c.mu.Lock()
	defer c.mu.Unlock()
	if c.dlErr {
		return errors.New("set deadline: error")
	}
	c.deadline = true
	return nil
}
func (c *vFakeConn) SetWriteDeadline(t time.Time) error {
	c.mu.Lock()
	defer c.mu.Unlock()
	if c.dlErr {
		return errors.New("set deadline: error")
	}
	return nil
}

func vNetConn(name string) net.Conn { return &vFakeConn{name: name} }

func vFC(nc net.Conn) *vFakeConn {
	if f, ok := nc.(*vFakeConn); ok {
		return f
	}
	panic("verif: not a fake conn (TLS layers are not replayed natively)")
}

func vConnFeed(nc net.Conn, p *ber.Packet) {
	c := vFC(nc)
	c.feed = append(c.feed, vFeedItem{kind: "packet", data: p.Bytes()})
}
func vConnFeedErr(nc net.Conn, msg string) {
	c := vFC(nc)
	c.feed = append(c.feed, vFeedItem{kind: "error", err: errors.New(msg)})
}
// vConnFeedRaw: raw bytes that are NOT a complete BER element (a stream that
// ends inside a frame); natively just bytes, the reader hits EOF after them.
func vConnFeedRaw(nc net.Conn, b string) {
	c := vFC(nc)
	c.feed = append(c.feed, vFeedItem{kind: "packet", data: []byte(b)})
}
func vConnFeedEOF(nc net.Conn)   { c := vFC(nc); c.feed = append(c.feed, vFeedItem{kind: "eof"}) }
func vConnFeedBlock(nc net.Conn) { c := vFC(nc); c.feed = append(c.feed, vFeedItem{kind: "block"}) }
func vConnFeedCall(nc net.Conn, f func()) {
	c := vFC(nc)
	c.feed = append(c.feed, vFeedItem{kind: "call", fn: f})
}
func vConnWritten(nc net.Conn) []byte {
	c := vFC(nc)
	c.mu.Lock()
	defer c.mu.Unlock()
	return append([]byte{}, c.written.Bytes()...)
}
func vConnWrites(nc net.Conn) int {
	c := vFC(nc)
	c.mu.Lock()
	defer c.mu.Unlock()
	return len(c.writes)
}
func vConnWriteN(nc net.Conn, i int) []byte {
	c := vFC(nc)
	c.mu.Lock()
	defer c.mu.Unlock()
	if i < 0 || i >= len(c.writes) {
		return nil
	}
	return c.writes[i]
}
func vConnWriteLayer(nc net.Conn, i int) string { return "plain" }
func vConnClosed(nc net.Conn) int {
	c := vFC(nc)
	c.mu.Lock()
	defer c.mu.Unlock()
	return c.closed
}
func vConnFramesRead(nc net.Conn) int { return -1 }
func vConnSet(nc net.Conn, key string, val bool) {
	c := vFC(nc)
	switch key {
	case "writeFail":
		c.writeFail = val
	case "closeErr":
		c.closeErr = val
	case "deadlineErr":
		c.dlErr = val
	}
}

func vTLSConfig() *tls.Config { return &tls.Config{MinVersion: tls.VersionTLS12} }

// ---- threads / gates (native: real goroutines) ----
type vGateT struct {
	name string
	ch   chan struct{}
	once sync.Once
}

func vGate(name string) *vGateT       { return &vGateT{name: name, ch: make(chan struct{})} }
func vGateOpen(g *vGateT)             { g.once.Do(func() { close(g.ch) }) }
func vGateWait(g *vGateT)             { <-g.ch }
func vQuiesce()                       { time.Sleep(100 * time.Millisecond) }
func vYield()                         { time.Sleep(time.Millisecond) }
func vBlockedThreads() int            { return -1 }
func vSchedFork(level int)            {}
func vSchedFilter(suffix string)      {}
func vPreemptBudget(n int)            {}
func vTrack(p interface{}, name string) {}
func vTrackElems(s interface{}, name string) {}
func vCertPoolSize(p *x509.CertPool) int      { return -1 }
func vTimePasses()                            {}
func vIssuedSigners() int                     { return -1 }
func vIssuedLeaves() int                      { return -1 }

// Run-level environment (listener / accept scripts): engine only.
func vEnvSet(key string, val bool)              {}
func vEnvAccept(nc net.Conn)                    {}
func vEnvAcceptErr(msg string)                  {}
func vEnvAcceptCall(f func())                   {}
func vEnvAcceptTempErr()                        {}
func vEnvListeners() int                        { return -1 }
func vEnvListenerOpen() int                     { return -1 }
func vEnvListenAddr() string                    { return "" }
func vLoopInit(fn, variable string, v int)      {}
func vConnLayer(x interface{}) string           { return "" }
func vTLSConfigOf(x interface{}) *tls.Config    { return nil }
func vEvents(kind, arg string) int              { return -1 }
func vEventIndex(kind, arg string, k int) int   { return -1 }

// ---- native replay entry ----

type vCase struct {
	Harness string                 `json:"harness"`
	Values  map[string]interface{} `json:"values"`
}

func vRunCase(c vCase) (res vCaseResult) {
	res.Harness = c.Harness
	vMu.Lock()
	vValues = c.Values
	vCur = &res
	vMu.Unlock()
	f, ok := vHarnesses[c.Harness]
	if !ok {
		res.Panic = "unknown harness " + c.Harness
		return
	}
	defer func() {
		if r := recover(); r != nil {
			if _, ok := r.(vStop); ok {
				return
			}
			res.Panic = fmt.Sprint(r)
			res.PanicStack = string(vStack())
		}
	}()
	f()
	return
}

func vReplayMain() error {
	in := os.Getenv("VERIF_REPLAY")
	out := os.Getenv("VERIF_REPLAY_OUT")
	if in == "" || out == "" {
		return errors.New("VERIF_REPLAY / VERIF_REPLAY_OUT not set")
	}
	b, err := os.ReadFile(in)
	if err != nil {
		return err
	}
	var cases []vCase
	if err := json.Unmarshal(b, &cases); err != nil {
		return err
	}
	results := make([]vCaseResult, 0, len(cases))
	for _, c := range cases {
		results = append(results, vRunCase(c))
	}
	ob, _ := json.MarshalIndent(results, "", " ")
	return os.WriteFile(out, ob, 0o644)
}

func vStack() []byte { return debug.Stack() }
