//go:build verif

package gldap

import "testing"

func TestVerifReplay(t *testing.T) {
	if err := vReplayMain(); err != nil {
		t.Fatal(err)
	}
}
