//go:build verif

package testdirectory

import (
	"crypto/tls"

	"github.com/hashicorp/go-hclog"
	"github.com/jimlambrt/gldap"
)

func init() {
	gldap.VReg("H_TD_C13_parallel", H_TD_C13_parallel)
}

// C13 (many sessions upgrading in parallel, test directory's StartTLS handler):
// while one session sits between its StartTLS reply and the end of its
// handshake (the client decides when that is), other sessions are still
// answered and can start their own upgrade.
func H_TD_C13_parallel() {
	gldap.VSummarise("encodeInteger")
	d := &Directory{t: vT{}, logger: hclog.NewNullLogger(), userDN: DefaultUserDN, groupDN: DefaultGroupDN,
		server: &tls.Config{MinVersion: tls.VersionTLS12, ClientAuth: tls.RequireAndVerifyClientCert}}
	listenerCfg := d.server // the configuration object the listener was created with (Start passes d.server to Run)
	d.users = []*gldap.Entry{{DN: vUserPool[0], Attributes: []*gldap.EntryAttribute{gldap.NewEntryAttribute("password", []string{"pw"})}}}
	a := gldap.VStartTLSExchange("a", 1, true)
	go d.handleStartTLS(vT{})(a.W, a.Req)
	gldap.VQuiesce()
	gldap.VAssertE(len(a.Responses()) == 1, "the first session has its StartTLS reply and is waiting for the client's handshake")
	other := gldap.VLen("otherSession", 2)
	var b *gldap.VExchange
	switch other {
	case 0:
		b = gldap.VNamedBindExchange("b", 1, vUserPool[0], "pw")
		go d.handleBind(vT{})(b.W, b.Req)
	case 1:
		b = gldap.VStartTLSExchange("b", 1, false)
		go d.handleStartTLS(vT{})(b.W, b.Req)
	default:
		b = gldap.VStartTLSExchange("b", 1, true)
		go d.handleStartTLS(vT{})(b.W, b.Req)
	}
	gldap.VQuiesce()
	gldap.VAssertE(len(b.Responses()) == 1, "another session is answered while the first session's handshake is pending")
	if other == 1 {
		gldap.VAssertE(b.Upgraded(), "another session completes its own upgrade meanwhile")
	}
	// serving StartTLS does not weaken the configuration other connections are accepted with
	gldap.VAssertE(listenerCfg.ClientAuth == tls.RequireAndVerifyClientCert && d.server.ClientAuth == tls.RequireAndVerifyClientCert,
		"the directory's TLS configuration still requires and verifies client certificates after StartTLS requests were served")
	a.Close()
	b.Close()
	gldap.VQuiesce()
	gldap.VReach("parallel upgrades")
}
