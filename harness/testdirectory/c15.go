//go:build verif

package testdirectory

import (
	"github.com/hashicorp/go-hclog"
	"github.com/jimlambrt/gldap"
)

func init() {
	gldap.VReg("H_TD_C15_directory", H_TD_C15_directory)
}

// C15 (test directory): Set* methods and getters used while clients are being served.
func H_TD_C15_directory() {
	gldap.VSchedFork(1)
	gldap.VSummarise("encodeInteger")
	d := &Directory{t: vT{}, logger: hclog.NewNullLogger(), userDN: DefaultUserDN, groupDN: DefaultGroupDN}
	d.users = []*gldap.Entry{{DN: vUserPool[0], Attributes: []*gldap.EntryAttribute{gldap.NewEntryAttribute("password", []string{"pw"})}}}
	d.groups = []*gldap.Entry{{DN: vGroupPool[0]}}
	gldap.VTrack(d, "dir")
	// one served operation, concurrently with one Set* / getter call
	op := gldap.VLen("served", 6)
	go func() {
		switch op {
		case 0:
			x := gldap.VBindExchange(1, vUserPool[0], "pw")
			d.handleBind(vT{})(x.W, x.Req)
		case 1:
			x := gldap.VSearchExchange(1, DefaultUserDN, "("+vUserRDN[0]+")")
			d.handleSearchUsers(vT{})(x.W, x.Req)
		case 2:
			x := gldap.VAddExchange(1, "cn=carol,ou=people,dc=example,dc=org", []string{"mail"}, [][]string{{"m"}})
			d.handleAdd(vT{})(x.W, x.Req)
		case 3:
			x := gldap.VModifyExchange(1, vUserPool[0], 0, "mail", []string{"m"})
			d.handleModify(vT{})(x.W, x.Req)
		case 4:
			x := gldap.VDeleteExchange(1, vUserPool[0])
			d.handleDelete(vT{})(x.W, x.Req)
		case 5:
			x := gldap.VBindExchange(1, "", "") // anonymous bind
			d.handleBind(vT{})(x.W, x.Req)
		case 6:
			x := gldap.VDeleteExchange(1, vGroupPool[0]) // not a user: the groups are consulted
			d.handleDelete(vT{})(x.W, x.Req)
		}
		gldap.VEvent("served")
	}()
	admin := gldap.VLen("admin", 7)
	go func() {
		switch admin {
		case 0:
			d.SetUsers(&gldap.Entry{DN: vUserPool[1]})
		case 1:
			_ = d.Users()
		case 2:
			d.SetGroups()
		case 3:
			_ = d.Groups()
		case 4:
			d.SetControls()
		case 5:
			_ = d.Controls()
		case 6:
			d.SetAllowAnonymousBind(true)
		case 7:
			_ = d.AllowAnonymousBind()
		}
		gldap.VEvent("admin")
	}()
	gldap.VQuiesce()
	gldap.VReach("directory workload")
}

func init() { gldap.VReg("H_TD_C15_pair", H_TD_C15_pair) }

// C15 (test directory): two served operations at the same time on the same entries
// (clients on different connections): a reader (user search, bind) and a writer
// (modify add-value / replace, add, delete).  Tracked: the directory's fields, the
// user entry and its attribute objects.
func H_TD_C15_pair() {
	gldap.VSchedFork(1)
	gldap.VSummarise("encodeInteger")
	d := &Directory{t: vT{}, logger: hclog.NewNullLogger(), userDN: DefaultUserDN, groupDN: DefaultGroupDN}
	pwAttr := gldap.NewEntryAttribute("password", []string{"pw"})
	mailAttr := gldap.NewEntryAttribute("mail", []string{"m0"})
	u0 := &gldap.Entry{DN: vUserPool[0], Attributes: []*gldap.EntryAttribute{pwAttr, mailAttr}}
	u1 := &gldap.Entry{DN: vUserPool[1], Attributes: []*gldap.EntryAttribute{gldap.NewEntryAttribute("password", []string{"pw1"})}}
	d.users = []*gldap.Entry{u0, u1}
	gldap.VTrack(d, "dir")
	gldap.VTrackElems(d.users, "dir.users") // the list's element cells (a delete shifts them in place)
	gldap.VTrack(u0, "user0")
	gldap.VTrack(pwAttr, "user0.password")
	gldap.VTrack(mailAttr, "user0.mail")
	reader := gldap.VLen("reader", 2)
	go func() {
		switch reader {
		case 0:
			x := gldap.VSearchExchange(1, DefaultUserDN, "("+vUserRDN[0]+")")
			d.handleSearchUsers(vT{})(x.W, x.Req)
		case 1:
			x := gldap.VBindExchange(1, vUserPool[0], "pw")
			d.handleBind(vT{})(x.W, x.Req)
		case 2:
			x := gldap.VBindExchange(1, vUserPool[1], "pw1") // a user stored after the one being deleted
			d.handleBind(vT{})(x.W, x.Req)
		}
		gldap.VEvent("reader done")
	}()
	writer := gldap.VLen("writer", 3)
	go func() {
		switch writer {
		case 0:
			x := gldap.VModifyExchange(1, vUserPool[0], 0, "mail", []string{"m1"}) // add a value
			d.handleModify(vT{})(x.W, x.Req)
		case 1:
			x := gldap.VModifyExchange(1, vUserPool[0], 2, "mail", []string{"m2"}) // replace
			d.handleModify(vT{})(x.W, x.Req)
		case 2:
			x := gldap.VAddExchange(1, vUserPool[1], []string{"mail"}, [][]string{{"m"}})
			d.handleAdd(vT{})(x.W, x.Req)
		case 3:
			x := gldap.VDeleteExchange(1, vUserPool[0])
			d.handleDelete(vT{})(x.W, x.Req)
		}
		gldap.VEvent("writer done")
	}()
	gldap.VQuiesce()
	gldap.VReach("directory pair")
}
