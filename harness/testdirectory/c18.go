//go:build verif

package testdirectory

import (
	"crypto/tls"

	"github.com/jimlambrt/gldap"
)

func init() {
	gldap.VReg("H_TD_C18_config", H_TD_C18_config)
	gldap.VReg("H_TD_C18_start", H_TD_C18_start)
}

// C18 (O4): the WithMTLS option yields a server configuration that requires and
// verifies client certificates against the generated CA.
func H_TD_C18_config() {
	mtls := gldap.VBool("withMTLS")
	opts := []Option{WithHost(vT{}, "localhost")}
	if mtls {
		opts = append(opts, WithMTLS(vT{}))
	}
	s, c := GetTLSConfig(vT{}, opts...)
	gldap.VAssertE(s != nil && c != nil, "both configurations are returned")
	if s == nil || c == nil {
		return
	}
	gldap.VAssertE(len(s.Certificates) == 1, "the server presents its certificate")
	gldap.VAssertE(c.RootCAs != nil, "the client trusts the generated CA")
	gldap.VAssertE(s.MinVersion == 0 || s.MinVersion >= tls.VersionTLS12, "no legacy protocol floor is configured")
	gldap.VAssertE(!s.InsecureSkipVerify && s.GetConfigForClient == nil && s.VerifyPeerCertificate == nil, "no verification bypass")
	if mtls {
		gldap.VAssertE(s.ClientAuth == tls.RequireAndVerifyClientCert, "WithMTLS: client certificates are required and verified")
		gldap.VAssertE(s.ClientCAs != nil && s.ClientCAs == c.RootCAs, "WithMTLS: client certificates are verified against the pool the generated CA was added to")
		gldap.VAssertE(len(c.Certificates) == 1, "WithMTLS: the client configuration carries a certificate")
	} else {
		gldap.VAssertE(s.ClientAuth == tls.NoClientCert, "without WithMTLS no client certificate is requested")
	}
	// the certificates the directory issues (server, mTLS client) are leaves: their holder
	// cannot sign further certificates that would verify against the generated CA
	if mtls {
		gldap.VAssertE(gldap.VIssuedLeaves() == 2, "WithMTLS: a server and a client certificate are issued by the generated CA")
	} else {
		gldap.VAssertE(gldap.VIssuedLeaves() == 1, "a server certificate is issued by the generated CA")
	}
	gldap.VAssertE(gldap.VIssuedSigners() == 0, "no issued certificate can itself issue certificates (only certificates issued by the configured CA verify)")
	if mtls {
		// a second directory in the same process gets a CA of its own: the first one's pool does
		// not grow and the second one trusts only its own CA
		s2, _ := GetTLSConfig(vT{}, opts...)
		gldap.VAssertE(s2 != nil && s2.ClientCAs != s.ClientCAs, "every GetTLSConfig call has its own pool")
		if s2 != nil {
			gldap.VAssertE(gldap.VCertPoolSize(s.ClientCAs) == 1 && gldap.VCertPoolSize(s2.ClientCAs) == 1, "WithMTLS: a directory's pool holds exactly its own CA (client certificates from another directory's CA are not accepted)")
		}
	}
	gldap.VReach("config")
}

// Start passes exactly that configuration to Run unless WithNoTLS is given.
func H_TD_C18_start() {
	noTLS, mtls := gldap.VBool("withNoTLS"), gldap.VBool("withMTLS")
	opts := []Option{WithPort(vT{}, 10389), WithHost(vT{}, "localhost")}
	if noTLS {
		opts = append(opts, WithNoTLS(vT{}))
	}
	if mtls {
		opts = append(opts, WithMTLS(vT{}))
	}
	d := Start(vT{}, opts...)
	gldap.VAssertE(d != nil && gldap.VServerListening(d.s), "the directory is listening when Start returns")
	used := gldap.VServerTLSConfig(d.s)
	if noTLS {
		gldap.VAssertE(used == nil, "WithNoTLS: the listener is plain")
	} else {
		gldap.VAssertE(used != nil && used == d.server, "the listener is wrapped with exactly the generated server configuration")
		if mtls && used != nil {
			gldap.VAssertE(used.ClientAuth == tls.RequireAndVerifyClientCert && used.ClientCAs != nil, "WithMTLS reaches the listener")
		}
	}
	gldap.VReach("start")
}
