//go:build verif

package testdirectory

import (
	"fmt"

	"github.com/hashicorp/go-hclog"
	"github.com/jimlambrt/gldap"
)

func init() {
	gldap.VReg("H_TD_C19_bind", H_TD_C19_bind)
	gldap.VReg("H_TD_C19_bind3", H_TD_C19_bind3)
}

type vT struct{}

func (vT) Errorf(format string, args ...interface{}) {}
func (vT) FailNow()                                  { panic("FailNow") }
func (vT) Log(...interface{})                        {}

// vUsers: up to n user entries with up to 2 attributes x up to 2 values, all symbolic.
func vUsers(n int) []*gldap.Entry {
	k := gldap.VLen("nusers", n)
	var out []*gldap.Entry
	for i := 0; i < k; i++ {
		un := fmt.Sprintf("u%d", i)
		e := &gldap.Entry{DN: gldap.VStr(un + ".dn")}
		maxA, maxV := 2, 2
		if vSmall && i > 0 {
			maxA, maxV = 1, 1 // quick tier: only the first user has the full shape
		}
		na := gldap.VLen(un+".nattrs", maxA)
		for j := 0; j < na; j++ {
			an := fmt.Sprintf("%s.a%d", un, j)
			nv := gldap.VLen(an+".nvals", maxV)
			vals := []string{gldap.VStr(an + ".v0"), gldap.VStr(an + ".v1")}[:nv]
			e.Attributes = append(e.Attributes, &gldap.EntryAttribute{Name: gldap.VStr(an + ".name"), Values: vals})
		}
		out = append(out, e)
	}
	return out
}

// the statement's predicate
func bindShouldSucceed(users []*gldap.Entry, anon bool, dn, pw string) bool {
	if pw == "" && anon {
		return true
	}
	for _, u := range users {
		if u.DN != dn {
			continue
		}
		// the first attribute named "password", its first value
		for _, a := range u.Attributes {
			if a.Name == "password" {
				if len(a.Values) > 0 && a.Values[0] == pw {
					return true
				}
				break
			}
		}
	}
	return false
}

// C19: a bind succeeds iff anonymous-and-allowed or the exact DN with the right first password value.
var vSmall bool

func H_TD_C19_bind()  { vSmall = true; vBind(2) }
func H_TD_C19_bind3() { vSmall = true; vBind(3) } // three users: the first with the full shape

func vBind(maxUsers int) {
	users := vUsers(maxUsers)
	anon := gldap.VBool("allowAnonymous")
	d := &Directory{t: vT{}, logger: hclog.NewNullLogger(), users: users, allowAnonymousBind: anon}
	dn, pw := gldap.VStr("bindDN"), gldap.VStr("password")
	id := gldap.VI64("msgid")
	gldap.VAssume(id >= 0 && id < 1<<31)
	// with at most one user entry also under a debug-level server logger (gldap then
	// pretty-prints the request before decoding it and the response before writing it)
	debug := false
	if len(users) <= 1 {
		debug = gldap.VBool("debugLogging")
	}
	x := gldap.VBindExchangeL(id, dn, pw, debug)
	d.handleBind(vT{})(x.W, x.Req)
	rs := x.Responses()
	gldap.VAssert(len(rs) == 1, "exactly one bind response")
	if len(rs) != 1 {
		return
	}
	gldap.VAssert(rs[0].App == gldap.ApplicationBindResponse && rs[0].ID == id, "a BindResponse with the request's message ID")
	want := int64(gldap.ResultInvalidCredentials)
	if bindShouldSucceed(users, anon, dn, pw) {
		want = gldap.ResultSuccess
	}
	gldap.VAssert(rs[0].Code == want, "success iff anonymous-and-allowed or exact DN with the first password value, else invalidCredentials")
	gldap.VReach("bind answered")
}
