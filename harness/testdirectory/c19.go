//go:build verif

package testdirectory

import (
	"fmt"

	"github.com/hashicorp/go-hclog"
	"github.com/jimlambrt/gldap"
)

func init() {
	gldap.VReg("H_TD_C19_bind", H_TD_C19_bind)
	gldap.VReg("H_TD_C19_bind3", H_TD_C19_bind3)
}

type vT struct{}

func (vT) Errorf(format string, args ...interface{}) {}
func (vT) FailNow()                                  { panic("FailNow") }
func (vT) Log(...interface{})                        {}

// vUsers: up to n user entries with up to 2 attributes x up to 2 values, all symbolic.
func vUsers(n int) []*gldap.Entry {
	k := gldap.VLen("nusers", n)
	var out []*gldap.Entry
	for i := 0; i < k; i++ {
		un := fmt.Sprintf("u%d", i)
		e := &gldap.Entry{DN: gldap.VStr(un + ".dn")}
		maxA, maxV := 2, 2
		if vSmall && i > 0 {
			maxA, maxV = 1, 1 // quick tier: only the first user has the full shape
		}
		na := gldap.VLen(un+".nattrs", maxA)
		for j := 0; j < na; j++ {
			an := fmt.Sprintf("%s.a%d", un, j)
			nv := gldap.VLen(an+".nvals", maxV)
			vals := []string{gldap.VStr(an + ".v0"), gldap.VStr(an + ".v1")}[:nv]
			e.Attributes = append(e.Attributes, &gldap.EntryAttribute{Name: gldap.VStr(an + ".name"), Values: vals})
		}
		out = append(out, e)
	}
	return out
}

// the statement's predicate
func bindShouldSucceed(users []*gldap.Entry, anon bool, dn, pw string) bool {
	if pw == "" && anon {
		return true
	}
	for _, u := range users {
		if u.DN != dn {
			continue
		}
		// the first attribute named "password", its first value
		for _, a := range u.Attributes {
			if a.Name == "password" {
				if len(a.Values) > 0 && a.Values[0] == pw {
					return true
				}
				break
			}
		}
	}
	return false
}

// C19: a bind succeeds iff anonymous-and-allowed or the exact DN with the right first password value.
var vSmall bool

func H_TD_C19_bind()  { vSmall = true; vBind(2) }
func H_TD_C19_bind3() { vSmall = true; vBind(3) } // three users: the first with the full shape

func vBind(maxUsers int) {
	users := vUsers(maxUsers)
	anon := gldap.VBool("allowAnonymous")
	d := &Directory{t: vT{}, logger: hclog.NewNullLogger(), users: users, allowAnonymousBind: anon}
	dn, pw := gldap.VStr("bindDN"), gldap.VStr("password")
	id := gldap.VI64("msgid")
	gldap.VAssume(id >= 0 && id < 1<<31)
	// with at most one user entry also under a debug-level server logger (gldap then
	// pretty-prints the request before decoding it and the response before writing it)
	debug := false
	if len(users) <= 1 {
		debug = gldap.VBool("debugLogging")
	}
	x := gldap.VBindExchangeL(id, dn, pw, debug)
	d.handleBind(vT{})(x.W, x.Req)
	rs := x.Responses()
	gldap.VAssert(len(rs) == 1, "exactly one bind response")
	if len(rs) != 1 {
		return
	}
	gldap.VAssert(rs[0].App == gldap.ApplicationBindResponse && rs[0].ID == id, "a BindResponse with the request's message ID")
	want := int64(gldap.ResultInvalidCredentials)
	if bindShouldSucceed(users, anon, dn, pw) {
		want = gldap.ResultSuccess
	}
	gldap.VAssert(rs[0].Code == want, "success iff anonymous-and-allowed or exact DN with the first password value, else invalidCredentials")
	gldap.VReach("bind answered")
}

func init() { gldap.VReg("H_TD_C19_seq", H_TD_C19_seq) }

// The bind decision follows the directory's *current* state: bind, then one change
// through LDAP or the Set* API (delete the user, add a user, replace / remove the
// password, SetUsers), then bind again - the second answer is the statement's
// predicate evaluated on the store as it is now.
func H_TD_C19_seq() {
	gldap.VSummarise("encodeInteger")
	pw0 := "secret"
	mk := func(dn, pw string) *gldap.Entry {
		return gldap.NewEntry(dn, map[string][]string{"password": {pw}})
	}
	d := &Directory{t: vT{}, logger: hclog.NewNullLogger(), userDN: DefaultUserDN, groupDN: DefaultGroupDN}
	d.users = []*gldap.Entry{mk(vUserPool[0], pw0)}
	bind := func(id int64, dn, pw string) int64 {
		x := gldap.VBindExchange(id, dn, pw)
		d.handleBind(vT{})(x.W, x.Req)
		rs := x.Responses()
		gldap.VAssert(len(rs) == 1, "exactly one bind response")
		if len(rs) != 1 {
			return -1
		}
		return rs[0].Code
	}
	// first bind: right or wrong password, existing or missing user
	firstDN := vUserPool[gldap.VLen("bind1.user", 1)]
	firstPW := []string{pw0, "wrong"}[gldap.VLen("bind1.pw", 1)]
	c1 := bind(1, firstDN, firstPW)
	want1 := int64(gldap.ResultInvalidCredentials)
	if bindShouldSucceed(d.users, false, firstDN, firstPW) {
		want1 = gldap.ResultSuccess
	}
	gldap.VAssert(c1 == want1, "first bind decision")
	// one change
	switch gldap.VLen("change", 5) {
	case 0:
		x := gldap.VDeleteExchange(2, vUserPool[0])
		d.handleDelete(vT{})(x.W, x.Req)
	case 1:
		x := gldap.VAddExchange(2, vUserPool[1], []string{"password"}, [][]string{{"pw1"}})
		d.handleAdd(vT{})(x.W, x.Req)
	case 2:
		x := gldap.VModifyExchange(2, vUserPool[0], 2, "password", []string{"changed"}) // replace
		d.handleModify(vT{})(x.W, x.Req)
	case 3:
		x := gldap.VModifyExchange(2, vUserPool[0], 1, "password", nil) // delete the attribute
		d.handleModify(vT{})(x.W, x.Req)
	case 4:
		d.SetUsers(mk(vUserPool[1], "pw1"))
	case 5:
		// no change
	}
	// second bind: any pool user with any of the passwords that ever existed
	dn2 := vUserPool[gldap.VLen("bind2.user", 1)]
	pw2 := []string{pw0, "changed", "pw1", ""}[gldap.VLen("bind2.pw", 3)]
	c2 := bind(3, dn2, pw2)
	users := d.Users()
	want2 := int64(gldap.ResultInvalidCredentials)
	// literally the statement's predicate on the stored entries (a value stored by a Modify
	// is whatever the directory keeps for it, see C20)
	if bindShouldSucceed(users, false, dn2, pw2) {
		want2 = gldap.ResultSuccess
	}
	gldap.VAssert(c2 == want2, "the second bind is decided on the directory's current entries")
	gldap.VReach("bind sequence")
}
