//go:build verif

package testdirectory

import (
	"fmt"

	"github.com/hashicorp/go-hclog"
	"github.com/jimlambrt/gldap"
)

func init() {
	gldap.VReg("H_TD_C20_step", H_TD_C20_step)
	gldap.VReg("H_TD_C20_seq", H_TD_C20_seq)
	gldap.VReg("H_TD_C20_multichange", H_TD_C20_multichange)
	gldap.VReg("H_TD_C20_anydn", H_TD_C20_anydn)
}

// entries are stored and found by their DN wherever it lies: below the user base, below
// the group base or elsewhere. Add, add again, delete, delete again, add once more.
func H_TD_C20_anydn() {
	gldap.VSummarise("encodeInteger")
	dns := []string{"cn=carol,ou=people,dc=example,dc=org", "cn=staff,ou=groups,dc=example,dc=org", "cn=printer,ou=devices,dc=example,dc=org", "cn=Staff,OU=Groups,DC=example,DC=org"}
	dn := dns[gldap.VLen("dn", len(dns)-1)]
	d := &Directory{t: vT{}, logger: hclog.NewNullLogger(), userDN: DefaultUserDN, groupDN: DefaultGroupDN}
	if gldap.VBool("haveGroup") {
		d.groups = append(d.groups, &gldap.Entry{DN: vGroupPool[0], Attributes: []*gldap.EntryAttribute{gldap.NewEntryAttribute("member", []string{vUserPool[0]})}})
	}
	if gldap.VBool("haveUser") {
		d.users = append(d.users, &gldap.Entry{DN: vUserPool[0], Attributes: []*gldap.EntryAttribute{gldap.NewEntryAttribute("mail", []string{"a@b"})}})
	}
	nUsers := len(d.users)
	add := func(want int, lbl string) {
		x := gldap.VAddExchange(5, dn, []string{"sn"}, [][]string{{"x"}})
		d.handleAdd(vT{})(x.W, x.Req)
		rs := x.Responses()
		gldap.VAssert(len(rs) == 1 && int(rs[0].Code) == want, lbl)
	}
	del := func(want int, lbl string) {
		x := gldap.VDeleteExchange(6, dn)
		d.handleDelete(vT{})(x.W, x.Req)
		rs := x.Responses()
		gldap.VAssert(len(rs) == 1 && int(rs[0].Code) == want, lbl)
	}
	add(gldap.ResultSuccess, "adding a new entry succeeds whatever base its DN lies below")
	add(gldap.ResultEntryAlreadyExists, "adding it again fails with entryAlreadyExists")
	del(gldap.ResultSuccess, "deleting the entry that was added succeeds")
	gldap.VAssert(len(d.users) == nUsers && len(d.groups) <= 1, "the entry is gone from the store, nothing else is")
	del(gldap.ResultNoSuchObject, "deleting it again returns noSuchObject")
	add(gldap.ResultSuccess, "it can be added again after the delete")
	gldap.VReach("anydn")
}

// DN pool: none is a substring of another.
// the second DN has an upper-case letter (DNs are stored and matched as given)
var vUserPool = []string{"cn=alice,ou=people,dc=example,dc=org", "cn=Bob,ou=people,dc=example,dc=org"}
var vUserRDN = []string{"cn=alice", "cn=Bob"}
var vGroupPool = []string{"cn=admins,ou=groups,dc=example,dc=org"}

// reference model of one entry: attribute name -> values, in attribute order
type refAttr struct {
	name string
	vals []string
}
type refEntry struct {
	dn    string
	attrs []refAttr
}

func (e *refEntry) find(name string) int {
	for i, a := range e.attrs {
		if a.name == name {
			return i
		}
	}
	return -1
}

// sameValue: plain, or the BER-wrapped form ConvertString unwraps (values are
// shorter than 10 bytes here, so the wrapped form is tag, one length octet, value)
func sameValue(got, want string) bool {
	if got == want {
		return true
	}
	return got == string([]byte{0x04, byte(len(want))})+want
}

func vShortStr(n string) string {
	s := gldap.VStr(n)
	gldap.VAssume(len(s) < 10) // every nested BER length stays in the one-octet class
	return s
}

// vWithTokenGroups: the step harness also explores stores with token groups configured
var vWithTokenGroups bool

// vStore builds an arbitrary valid store over the pool together with its reference model.
func vStore() (*Directory, []*refEntry) {
	d := &Directory{t: vT{}, logger: hclog.NewNullLogger(), userDN: DefaultUserDN, groupDN: DefaultGroupDN}
	var ref []*refEntry
	for i, dn := range vUserPool {
		if !gldap.VBool(fmt.Sprintf("have%d", i)) {
			continue
		}
		e := &gldap.Entry{DN: dn}
		r := &refEntry{dn: dn}
		// attribute "mail" with 1..2 symbolic values, optional "description"
		mv := []string{vShortStr(fmt.Sprintf("u%d.mail0", i))}
		if i == 0 && gldap.VBool("u0.twoMails") {
			mv = append(mv, vShortStr("u0.mail1"))
		}
		e.Attributes = append(e.Attributes, gldap.NewEntryAttribute("mail", mv))
		r.attrs = append(r.attrs, refAttr{"mail", mv})
		if i == 0 && gldap.VBool("u0.hasDescription") {
			dv := []string{vShortStr("u0.desc")}
			e.Attributes = append(e.Attributes, gldap.NewEntryAttribute("description", dv))
			r.attrs = append(r.attrs, refAttr{"description", dv})
		}
		d.users = append(d.users, e)
		ref = append(ref, r)
	}
	if vWithTokenGroups && gldap.VBool("haveTokenGroups") {
		// token groups configured (SetTokenGroups): irrelevant to searches that are not SID searches
		d.tokenGroups = map[string][]*gldap.Entry{"S-1-1": {&gldap.Entry{DN: vGroupPool[0]}}}
	}
	if gldap.VBool("haveGroup") {
		d.groups = append(d.groups, &gldap.Entry{DN: vGroupPool[0], Attributes: []*gldap.EntryAttribute{gldap.NewEntryAttribute("member", []string{vUserPool[0]})}})
	}
	return d, ref
}

func refFind(ref []*refEntry, dn string) *refEntry {
	for _, r := range ref {
		if r.dn == dn {
			return r
		}
	}
	return nil
}

// searchUser runs the real user-search handler for one pool entry and returns the entries found.
func searchUser(d *Directory, id int64, k int) []gldap.VResponse {
	x := gldap.VSearchExchange(id, DefaultUserDN, "("+vUserRDN[k]+")")
	d.handleSearchUsers(vT{})(x.W, x.Req)
	return x.Responses()
}

// searchByDN runs the generic search handler with the entry's DN as the search base.
func searchByDN(d *Directory, id int64, k int) []gldap.VResponse {
	x := gldap.VSearchExchange(id, vUserPool[k], "(objectClass=*)")
	d.handleSearchGeneric(vT{})(x.W, x.Req)
	return x.Responses()
}

// checkSearch: searching for pool entry k returns exactly the reference entry (or noSuchObject).
func checkSearch(d *Directory, ref []*refEntry, k int, lbl string) {
	rs := searchUser(d, 77, k)
	want := refFind(ref, vUserPool[k])
	// the same question asked through the generic handler with the DN as search base
	gs := searchByDN(d, 78, k)
	gldap.VAssert(len(gs) >= 1, lbl+": base-DN search answered")
	if len(gs) >= 1 {
		if want == nil {
			gldap.VAssert(len(gs) == 1, lbl+": base-DN search finds nothing for an absent entry")
		} else {
			gldap.VAssert(len(gs) == 2 && gs[0].DN == want.dn && gs[1].Code == gldap.ResultSuccess, lbl+": base-DN search finds a present entry exactly once")
		}
	}
	gldap.VAssert(len(rs) >= 1, lbl+": search answered")
	if len(rs) == 0 {
		return
	}
	done := rs[len(rs)-1]
	gldap.VAssert(done.App == gldap.ApplicationSearchResultDone && done.ID == 77, lbl+": search ends with SearchResultDone")
	if want == nil {
		gldap.VAssert(len(rs) == 1 && done.Code == gldap.ResultNoSuchObject, lbl+": an absent entry is not found")
		return
	}
	gldap.VAssert(len(rs) == 2 && done.Code == gldap.ResultSuccess, lbl+": a present entry is found exactly once")
	if len(rs) != 2 {
		return
	}
	got := rs[0]
	gldap.VAssert(got.App == gldap.ApplicationSearchResultEntry && got.DN == want.dn, lbl+": found entry has the DN")
	gldap.VAssert(len(got.Attrs) == len(want.attrs), lbl+": found entry has the attributes of the model")
	for _, wa := range want.attrs {
		found := false
		for _, ga := range got.Attrs {
			if ga.Name != wa.name {
				continue
			}
			found = true
			gldap.VAssert(len(ga.Vals) == len(wa.vals), lbl+": attribute value count")
			for j := range wa.vals {
				if j < len(ga.Vals) {
					gldap.VAssert(sameValue(ga.Vals[j], wa.vals[j]), lbl+": attribute value")
				}
			}
		}
		gldap.VAssert(found, lbl+": attribute present")
	}
}

const (
	opAdd = iota
	opDelete
	opModify
	opSearch
	opKinds
)

// one operation with symbolic arguments on (d, ref); ref is updated to the reference post-state
func vStep(d *Directory, ref []*refEntry, n string) []*refEntry {
	op := vForceOp
	if op < 0 {
		op = gldap.VLen(n+".op", opKinds-1)
	}
	k := vForceTarget
	if k < 0 {
		k = gldap.VLen(n+".target", len(vUserPool)-1)
	}
	dn := vUserPool[k]
	cur := refFind(ref, dn)
	switch op {
	case opAdd:
		mail, sn := gldap.VStr(n+".mail"), gldap.VStr(n+".sn")
		gldap.VAssume(len(mail) < 10 && len(sn) < 10)
		x := gldap.VAddExchange(5, dn, []string{"sn", "mail"}, [][]string{{sn}, {mail}})
		d.handleAdd(vT{})(x.W, x.Req)
		rs := x.Responses()
		gldap.VAssert(len(rs) == 1 && rs[0].App == gldap.ApplicationAddResponse && rs[0].ID == 5, n+": one AddResponse")
		if len(rs) != 1 {
			return ref
		}
		if cur != nil {
			gldap.VAssert(rs[0].Code == gldap.ResultEntryAlreadyExists, n+": adding an existing user DN fails with entryAlreadyExists")
		} else {
			gldap.VAssert(rs[0].Code == gldap.ResultSuccess, n+": adding a new entry succeeds")
			// NewEntry orders attributes by name
			ref = append(ref, &refEntry{dn: dn, attrs: []refAttr{{"mail", []string{mail}}, {"sn", []string{sn}}}})
		}
	case opDelete:
		x := gldap.VDeleteExchange(6, dn)
		d.handleDelete(vT{})(x.W, x.Req)
		rs := x.Responses()
		gldap.VAssert(len(rs) == 1 && rs[0].App == gldap.ApplicationDelResponse && rs[0].ID == 6, n+": one DelResponse")
		if len(rs) != 1 {
			return ref
		}
		if cur == nil {
			gldap.VAssert(rs[0].Code == gldap.ResultNoSuchObject, n+": deleting a missing entry returns noSuchObject")
		} else {
			gldap.VAssert(rs[0].Code == gldap.ResultSuccess, n+": deleting a present entry succeeds")
			var nr []*refEntry
			for _, r := range ref {
				if r.dn != dn {
					nr = append(nr, r)
				}
			}
			ref = nr
		}
	case opModify:
		nch := 1 + vExtraChanges // one Modify request with 1 (or, in the multi-change harness, 2) changes
		var mops []int64
		var typs []string
		var valss [][]string
		for c := 0; c < nch; c++ {
			cn := fmt.Sprintf("%s.c%d", n, c)
			mops = append(mops, int64(gldap.VLen(cn+".mod", 2))) // 0 add, 1 delete, 2 replace
			typs = append(typs, []string{"mail", "description"}[gldap.VLen(cn+".attr", 1)])
			maxV := 2
			if c > 0 {
				maxV = 1
			}
			nv := gldap.VLen(cn+".nvals", maxV)
			var vals []string
			for k := 0; k < nv; k++ {
				vals = append(vals, vShortStr(fmt.Sprintf("%s.v%d", cn, k)))
			}
			valss = append(valss, vals)
		}
		x := gldap.VModifyExchangeN(7, dn, mops, typs, valss)
		d.handleModify(vT{})(x.W, x.Req)
		rs := x.Responses()
		gldap.VAssert(len(rs) == 1 && rs[0].App == gldap.ApplicationModifyResponse && rs[0].ID == 7, n+": one ModifyResponse")
		if len(rs) != 1 {
			return ref
		}
		if cur == nil {
			gldap.VAssert(rs[0].Code == gldap.ResultNoSuchObject, n+": modifying a missing entry returns noSuchObject")
			return ref
		}
		gldap.VAssert(rs[0].Code == gldap.ResultSuccess, n+": modifying a present entry succeeds")
		for c := 0; c < nch; c++ {
			typ, vals := typs[c], valss[c]
			i := cur.find(typ)
			switch mops[c] {
			case gldap.AddAttribute:
				if i >= 0 {
					cur.attrs[i].vals = append(append([]string{}, cur.attrs[i].vals...), vals...)
				} else {
					cur.attrs = append(cur.attrs, refAttr{typ, vals})
				}
			case gldap.DeleteAttribute:
				if i >= 0 {
					cur.attrs = append(append([]refAttr{}, cur.attrs[:i]...), cur.attrs[i+1:]...)
				}
			case gldap.ReplaceAttribute:
				if i >= 0 {
					cur.attrs[i].vals = vals
				} else {
					cur.attrs = append(cur.attrs, refAttr{typ, vals})
				}
			}
		}
	case opSearch:
		checkSearch(d, ref, k, n+" search")
	}
	return ref
}

// C20 (inductive step): from an arbitrary valid store, one operation behaves
// like the reference store; checked through later searches of every pool entry.
var vExtraChanges = 0

func H_TD_C20_step() {
	gldap.VSummarise("encodeInteger")
	vWithTokenGroups = true
	d, ref := vStore()
	ref = vStep(d, ref, "s")
	for k := range vUserPool {
		checkSearch(d, ref, k, fmt.Sprintf("after: entry %d", k))
	}
	gldap.VAssert(len(d.users) == len(ref), "store size matches the model")
	gldap.VReach("step")
}

// two operations from the empty store (the invariant is reachable and composes)
func H_TD_C20_seq() {
	gldap.VSummarise("encodeInteger")
	d := &Directory{t: vT{}, logger: hclog.NewNullLogger(), userDN: DefaultUserDN, groupDN: DefaultGroupDN}
	var ref []*refEntry
	ref = vStep(d, ref, "s1")
	ref = vStep(d, ref, "s2")
	for k := range vUserPool {
		checkSearch(d, ref, k, fmt.Sprintf("after: entry %d", k))
	}
	gldap.VReach("seq")
}

// one Modify request carrying two changes against a present entry: the changes
// are applied in order, each to its own attribute
func H_TD_C20_multichange() {
	gldap.VSummarise("encodeInteger")
	vExtraChanges = 1
	vForceOp, vForceTarget = opModify, 0
	d, ref := vStore()
	gldap.VAssume(refFind(ref, vUserPool[0]) != nil)
	ref = vStep(d, ref, "s")
	for k := range vUserPool {
		checkSearch(d, ref, k, fmt.Sprintf("after: entry %d", k))
	}
	gldap.VReach("multichange")
}

var vForceOp, vForceTarget = -1, -1
