//go:build verif

package testdirectory

import (
	"testing"

	"github.com/jimlambrt/gldap"
)

func TestVerifReplay(t *testing.T) {
	if err := gldap.VReplayMain(); err != nil {
		t.Fatal(err)
	}
}
