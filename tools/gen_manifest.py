#!/usr/bin/env python3
# Regenerates /verif/MANIFEST.json from the table below (claimed checks) and
# properties.jsonl (everything not claimed is listed under not_applicable).
import json, os
V = os.path.dirname(os.path.dirname(os.path.abspath(__file__)))
props = [json.loads(l) for l in open(os.path.join(V, 'properties.jsonl'))]
TECH = "symbolic execution of go/ssa + SMT (z3), native replay of models"
TRUST = "Trusted: go/ssa, the gosym interpreter and its environment stubs (DESIGN §5), z3 4.8.12. "
C = {}
C["C01"] = ("Bounded symbolic model checking of the real request decoder: a reference RFC 4511 client encoder (harness, ber constructors only) builds each of the seven operations from symbolic field values (message ID, unbounded strings, integers as 64-bit vectors, symbolic list lengths, 12 control kinds); the wire image is decoded by the real newRequest and every exported field is asserted equal to the client's value as SMT terms; unsupported operations and bind versions != 3 must be rejected. Counterexamples are replayed natively.",
            TRUST + "asn1-ber wire-reader contract (DESIGN §5.1). Bounds in evidence (list widths, <= 1 control per message, 2 on Delete in the thorough tier). Filter semantics rest on go-ldap.")
C["C02"] = ("Bounded symbolic model checking of the real decode path: (*conn).readRequest is executed on a lazily initialised symbolic BER tree in which every node's class, type, tag, content and child count are solver variables constrained only by what ber.ReadPacket can return; every instruction that can panic is decided by z3 on every path; each panic site found is serialised to bytes and replayed through the real reader and decoder before it is reported.",
            TRUST + "asn1-ber wire-reader contract of DESIGN §5.1 (cross-checked natively on sampled paths). Bounds: depth <= 5, widths as listed in the evidence; byte-level framing corruption is the reader's error outcome; random byte streams (clause b) are not this technique.")
C["C16"] = ("Bounded symbolic model checking of the real SSA: every control-flow path of ConvertString/readLength, SIDBytes*, NewEntry*, every New*Response / NewControl* constructor and every Mux registration method is executed with symbolic arguments (unbounded strings, all integer values, every sequence of <=3 options incl. nil); panic conditions and the round-trip/ordering assertions are discharged by z3 per path; counterexamples are replayed natively before being reported.",
            TRUST + "Stubs for fmt/bytes.Buffer/encoding-binary/sort. Bounds: <=16 input bytes for SIDBytesToString, <=3 attributes, <=3 options per call.")
NA = {}
def chk(pid):
    text, note = C[pid]
    return {"property_id": pid, "quick_cmd": f"./check {pid} quick", "thorough_cmd": f"./check {pid} thorough",
            "evidence_file": f"/verif/evidence/{pid}.json", "replay_cmd_template": f"./check {pid} --replay {{path}}", "engine": "gosym",
            "level_claimed": {"category": "model_checking", "text": text, "design_ref": "DESIGN.md §7 " + pid},
            "level_note": note, "technique": TECH}
# optional overrides from a side file maintained by hand
extra = os.path.join(V, 'tools', 'manifest_entries.json')
if os.path.exists(extra):
    e = json.load(open(extra))
    C.update({k: tuple(v) for k, v in e.get("claimed", {}).items()})
    NA.update(e.get("not_applicable", {}))
m = {"version": 1,
     "setup_cmd": "cd /verif/engine && GOFLAGS=-mod=mod GOPROXY=off GOSUMDB=off GOTOOLCHAIN=local go build -o ../build/gosym .",
     "hooks": {"guard": "verif", "enable": "harnesses are injected with go/packages Overlay / go test -overlay as virtual files /repo/zz_verif_*.go carrying //go:build verif; nothing is written to /repo",
               "baseline_off_cmd": "cd /repo && GOFLAGS=-mod=mod GOPROXY=off go test -vet=off -count=1 ./...", "source_commits": [], "add_only": True},
     "engines": [{"name": "gosym", "path": "/verif/engine", "serves_properties": sorted(C), "kind_free_text": "symbolic interpreter for go/ssa with SMT-LIB2 back end (z3 -in), path exploration by re-execution, partial-order schedule encoding, native replay through go test -overlay"}],
     "checks": [chk(p) for p in sorted(C)],
     "notes": "See DESIGN.md. fix: commits in /repo are listed in known_findings.json (fixed entries).",
     "not_applicable": [{"property_id": p["id"], "reason": NA.get(p["id"], "check not built yet in this session (work in progress; see DESIGN.md §7)")} for p in props if p["id"] not in C]}
json.dump(m, open(os.path.join(V, 'MANIFEST.json'), 'w'), indent=1)
print("claimed:", sorted(C))
