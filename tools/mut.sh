#!/bin/sh
# tools/mut.sh <file-in-repo> <python-replace-old> <python-replace-new> <check ids...>
# applies a textual mutation to /repo, runs the checks (quick), restores /repo.
f="$1"; old="$2"; new="$3"; shift 3
rm -rf /verif/build/evidence.bak /verif/build/replays.bak; cp -r /verif/evidence /verif/build/evidence.bak; cp -r /verif/replays /verif/build/replays.bak 2>/dev/null
cd /repo || exit 2
python3 - "$f" "$old" "$new" <<'PY'
import sys
f,old,new=sys.argv[1:4]
s=open(f).read()
assert s.count(old)>=1, "pattern not found"
open(f,'w').write(s.replace(old,new,1))
PY
[ $? -eq 0 ] || { git checkout -- .; exit 2; }
GOFLAGS=-mod=mod GOPROXY=off go build ./... || { echo "MUTANT DOES NOT BUILD"; git checkout -- .; exit 2; }
for id in "$@"; do
  (cd /verif && timeout 900 ./check $id quick 2>&1 | grep -E "^VIOLATION|^KNOWN|^INCONCL|^C[0-9]+ quick|CROSSCHECK" | cut -c1-220)
done
git checkout -- .
rm -rf /verif/evidence /verif/replays; mv /verif/build/evidence.bak /verif/evidence; mv /verif/build/replays.bak /verif/replays 2>/dev/null; true
