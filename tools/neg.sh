#!/bin/sh
# tools/neg.sh <dir-with-patch.diff> [check ids...] : a behaviour-preserving change must not raise any alarm
sd="$1"; shift
ids="$@"; [ -z "$ids" ] && ids="C01 C02 C03 C04 C05 C06 C07 C08 C09 C10 C11 C12 C13 C14 C15 C16 C17 C18 C19 C20"
export GOFLAGS=-mod=mod GOPROXY=off GOSUMDB=off GOTOOLCHAIN=local
rm -rf /verif/build/evidence.bak /verif/build/replays.bak; cp -r /verif/evidence /verif/build/evidence.bak; cp -r /verif/replays /verif/build/replays.bak 2>/dev/null
cd /repo || exit 2
git diff --quiet || { echo "/repo not clean"; exit 2; }
git apply $sd/patch.diff || { echo "patch does not apply"; exit 2; }
echo "== existing suite WITH the change"
go build ./... && timeout 900 go test -vet=off -count=1 ./... 2>&1 | tail -3
for id in $ids; do
  (cd /verif && timeout 1800 ./check $id quick 2>&1 | grep -E "^VIOLATION|^KNOWN|^INCONC|^C[0-9]+ quick|CROSSCHECK|BROKEN|load:" | cut -c1-260)
done
git checkout -- .
git status --short | head -3
rm -rf /verif/evidence /verif/replays; mv /verif/build/evidence.bak /verif/evidence; mv /verif/build/replays.bak /verif/replays 2>/dev/null; true
