#!/bin/sh
# tools/reseed_all.sh [scratch-repo] [scratch-verif] : regression over every seeded change —
# each must still be flagged (VIOLATION line) by the first check named in its meta.json "caught_by".
# Works on scratch copies so that /repo and /verif/evidence stay untouched.
export GOFLAGS=-mod=mod GOPROXY=off GOSUMDB=off GOTOOLCHAIN=local
R=${1:-/tmp/reseed_repo}; V=${2:-/tmp/reseed_verif}
git -C /repo worktree remove --force $R 2>/dev/null; git -C /repo worktree add --detach $R HEAD -f >/dev/null 2>&1 || exit 2
rm -rf $V; rsync -a --exclude .git /verif/ $V/
ok=0; bad=0
# SEED_PROPS="C13 C17 ..." restricts the run to (and orders it by) those properties
if [ -n "$SEED_PROPS" ]; then
  dirs=""; for p in $SEED_PROPS; do dirs="$dirs $(ls -d /verif/seeded/$p /verif/seeded/$p[a-z] 2>/dev/null)"; done
else
  dirs=$(ls -d /verif/seeded/C*)
fi
for d in $dirs; do
  id=$(basename $d)
  chk=$(python3 -c "import json,re;print(re.split(r'[ ,]+',json.load(open('$d/meta.json'))['caught_by'])[0])")
  [ "$chk" = "none" ] && { echo "$id: recorded as not decided (skipped)"; continue; }
  cd $R && git checkout -q -- . && git apply $d/patch.diff 2>/dev/null || { echo "$id: PATCH-FAILS"; bad=$((bad+1)); continue; }
  out=$(cd $V && VERIF_REPO=$R VERIF_DIR=$V timeout 2400 ./check $chk quick 2>&1)
  if echo "$out" | grep -q "^VIOLATION property=$chk"; then ok=$((ok+1)); echo "$id: flagged by $chk"; else bad=$((bad+1)); echo "$id: NOT FLAGGED by $chk :: $(echo "$out" | grep -E 'INCONC|BROKEN|quick:' | head -2 | cut -c1-160)"; fi
done
cd $R && git checkout -q -- .; cd /; git -C /repo worktree remove --force $R; rm -rf $V
echo "flagged=$ok not_flagged=$bad"
