#!/bin/sh
# tools/revert.sh <commit-grep> <check ids...>: temporarily reverts one fix: commit in /repo's working tree and runs checks
pat="$1"; shift
rm -rf /verif/build/evidence.bak /verif/build/replays.bak; cp -r /verif/evidence /verif/build/evidence.bak; cp -r /verif/replays /verif/build/replays.bak 2>/dev/null
cd /repo || exit 2
h=$(git log --format=%h -1 --grep="$pat")
[ -n "$h" ] || { echo "no commit matches"; exit 2; }
git show $h | git apply -R || { echo "cannot revert $h"; git checkout -- .; exit 2; }
GOFLAGS=-mod=mod GOPROXY=off go build ./... || { echo "does not build"; git checkout -- .; exit 2; }
echo "== reverted $h ($pat)"
for id in "$@"; do
  (cd /verif && timeout 900 ./check $id quick 2>&1 | grep -E "^VIOLATION|^KNOWN|^INCONCL|^C[0-9]+ quick|CROSSCHECK" | cut -c1-200)
done
git checkout -- .
rm -rf /verif/evidence /verif/replays; mv /verif/build/evidence.bak /verif/evidence; mv /verif/build/replays.bak /verif/replays 2>/dev/null; true
