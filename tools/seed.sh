#!/bin/sh
# tools/seed.sh <seed-dir> <check ids...> : confirm a seeded change (suite passes, demo fails with / passes without), run checks against it
sd="$1"; shift
export GOFLAGS=-mod=mod GOPROXY=off GOSUMDB=off GOTOOLCHAIN=local
rm -rf /verif/build/evidence.bak /verif/build/replays.bak; cp -r /verif/evidence /verif/build/evidence.bak; cp -r /verif/replays /verif/build/replays.bak 2>/dev/null
cd /repo || exit 2
git diff --quiet || { echo "/repo not clean"; exit 2; }
demo_pkg_dir=$(cat $sd/demo_dir 2>/dev/null || echo .)
echo "== demo WITHOUT the change"
cp $sd/demo_test.go $demo_pkg_dir/zz_demo_test.go; [ -f $sd/demo_flags ] && DEMOFLAGS=$(cat $sd/demo_flags)
go test $DEMOFLAGS -vet=off -count=1 -run "$(cat $sd/demo_run 2>/dev/null || echo .)" $demo_pkg_dir 2>&1 | tail -3
git apply $sd/patch.diff || { echo "patch does not apply"; rm -f $demo_pkg_dir/zz_demo_test.go; exit 2; }
echo "== demo WITH the change"
go test $DEMOFLAGS -vet=off -count=1 -run "$(cat $sd/demo_run 2>/dev/null || echo .)" $demo_pkg_dir 2>&1 | tail -4
rm -f $demo_pkg_dir/zz_demo_test.go
echo "== existing suite WITH the change"
go build ./... && go test -vet=off -count=1 ./... 2>&1 | tail -3
for id in "$@"; do
  echo "== check $id"
  (cd /verif && timeout 1200 ./check $id quick 2>&1 | grep -E "^VIOLATION|^KNOWN|^INCONCL|^C[0-9]+ quick|CROSSCHECK|BROKEN" | cut -c1-220)
done
git checkout -- .
git status --short | head -3
rm -rf /verif/evidence /verif/replays; mv /verif/build/evidence.bak /verif/evidence; mv /verif/build/replays.bak /verif/replays 2>/dev/null; true
